#!/bin/bash
# offline setup: byte-compile the framework, check both interpreters and the solvers answer
set -e
cd "$(dirname "$0")"
python3-vt -m compileall -q pyvc contracts checker native >/dev/null
python3-vt -c "import z3; s=z3.Solver(); x=z3.Int('x'); s.add(x>1, x<2); assert s.check()==z3.unsat; print('z3', z3.get_version_string(), 'ok')"
/venv/bin/python -c "import numpy, sys; print('native python', sys.version.split()[0], 'numpy', numpy.__version__, 'ok')"
echo '(check-sat)' | /usr/bin/z3 -in >/dev/null && echo 'z3 4.8.12 ok'
echo '(set-logic ALL)(check-sat)' | /usr/bin/cvc5 --lang=smt2 >/dev/null && echo 'cvc5 ok'
mkdir -p evidence replays
# Lean lemmas (Gibbs inequality / word count / permutation counts): compile once, leave a stamp with the source hash
for f in Entropy.lean Perm.lean; do
  h=$(sha256sum lemmas/$f | cut -d' ' -f1)
  if [ "$(cat lemmas/.$f.ok 2>/dev/null)" != "$h" ]; then
    if out=$(timeout 1500 lean lemmas/$f 2>&1) && ! echo "$out" | grep -qi "error\|sorry"; then echo "$h" > lemmas/.$f.ok; echo "lean $f ok"; else echo "lean $f FAILED: $out" | head -5; fi
  fi
done
