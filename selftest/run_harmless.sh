#!/bin/bash
# usage: selftest/run_harmless.sh [name-filter] -- applies each behaviour-preserving change under /verif/harmless to a scratch copy of
# /repo and runs the quick check of its property: the wanted verdict is exit 0 (exit 2 = undecided, exit 1 would be a FALSE ALARM)
cd "$(dirname "$0")/.."
FILTER=${1:-}
TMP=$(mktemp -d /tmp/harmless.XXXXXX)
run_one() {
  d=$(realpath $1); tmp=$2
  name=$(basename $d); pid=${name%%_*}
  w=$tmp/$name
  mkdir -p $w && (cd /repo && git archive HEAD) | tar -x -C $w
  if ! patch -s -p1 -d $w -i $d/patch.diff >/dev/null 2>&1; then echo "$name APPLY-FAILED"; rm -rf $w; return; fi
  out=$(REPO=$w ./check $pid --tier quick --evidence-dir $w/.ev 2>&1); code=$?
  v=$(echo "$out" | grep -m1 -E '^(VIOLATION|UNDECIDED|CHECKER)' | cut -c1-200)
  echo "$name exit=$code $v"
  rm -rf $w
}
export -f run_one
ls -d harmless/*${FILTER}* | xargs -P 3 -I{} bash -c "run_one {} $TMP"
rm -rf $TMP
