#!/bin/bash
# usage: selftest/run_seeded.sh [tier] [name-filter]  -- runs each seeded change (scratch copy of /repo) against the check of
# the property it breaks; prints one line per change. Scratch copies live under a mktemp dir and are removed.
cd "$(dirname "$0")/.."
TIER=${1:-quick}; FILTER=${2:-}
TMP=$(mktemp -d /tmp/seeded.XXXXXX)
run_one() {
  d=$(realpath $1); tier=$2; tmp=$3
  name=$(basename $d); pid=${name%%_*}
  w=$tmp/$name
  mkdir -p $w && (cd /repo && git archive HEAD) | tar -x -C $w
  if ! patch -s -p1 -d $w -i $d/patch.diff >/dev/null 2>&1; then echo "$name APPLY-FAILED"; rm -rf $w; return; fi
  out=$(REPO=$w ./check $pid --tier $tier --evidence-dir $w/.ev 2>&1); code=$?
  v=$(echo "$out" | grep -m1 '^VIOLATION' | cut -c1-160)
  echo "$name exit=$code ${v:-$(echo "$out" | grep -m1 -E '^(UNDECIDED|CHECKER)' | cut -c1-160)}"
  rm -rf $w
}
export -f run_one
ls -d seeded/*${FILTER}* | xargs -P 4 -I{} bash -c "run_one {} $TIER $TMP"
rm -rf $TMP
