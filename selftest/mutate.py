#!/usr/bin/env python3
"""Soundness self-test of the deductive engine (DESIGN 6.2): small syntactic mutations inside the functions under contract.
For every mutant (scratch copy of /repo, removed afterwards) the property's check is run; the verdicts are cross-tabulated:
   native finds a failing input   &  every obligation still discharged   ->  SOUNDNESS ALARM (the engine proved a broken function)
usage: selftest/mutate.py <PROP> [max_mutants] [seed]"""
import ast, json, os, random, re, shutil, subprocess, sys, tempfile
from concurrent.futures import ThreadPoolExecutor
HERE = os.path.dirname(os.path.dirname(os.path.abspath(__file__)))
sys.path.insert(0, HERE)
from checker.props import PROPS

OPS = [(r'(?<![<>=!])<(?![<=])', '<='), (r'<=', '<'), (r'(?<![<>=!-])>(?![>=])', '>='), (r'>=', '>'), (r'==', '!='), (r'!=', '=='),
       (r'\+ 1\b', '+ 2'), (r'\+ 1\b', ''), (r'- 1\b', ''), (r'\b0\.5\b', '0.6'), (r'\brange\(0,', 'range(1,'), (r'\brange\(1,', 'range(0,'),
       (r' \+ ', ' - '), (r' - ', ' + '), (r' \* ', ' / '), (r'\b5\b', '4'), (r'\b6\b', '7'), (r'\b18\b', '17'), (r'\b7\b', '6'), (r'\b2\b', '3'),
       (r'\b0\.35\b', '0.3'), (r'\b\.35\b', '.3'), (r'\b\.25\b', '.2'), (r'\band\b', 'or'), (r'\bor\b', 'and'), (r'\bnot ', ''), (r"'K'", "'H'"), (r"'E'", "'Q'")]


def function_ranges(prop):
    out = {}
    for key in PROPS[prop]['functions']:
        rel, q = key.split(':')
        q = q.split('#')[0]
        path = os.path.join('/repo', rel)
        tree = ast.parse(open(path).read())
        parts = q.split('.')
        body = tree.body
        node = None
        for p_ in parts:
            for n in body:
                if isinstance(n, (ast.FunctionDef, ast.ClassDef)) and n.name == p_:
                    node = n
                    body = n.body
                    break
        if isinstance(node, ast.FunctionDef):
            first = node.body[0]
            start = (first.end_lineno + 1) if isinstance(first, ast.Expr) and isinstance(getattr(first, 'value', None), ast.Constant) else first.lineno
            out.setdefault(rel, []).append((start, node.end_lineno, q))
    return out


def mutants(prop, rng, limit):
    ms = []
    for rel, ranges in function_ranges(prop).items():
        lines = open(os.path.join('/repo', rel)).read().split('\n')
        for (a, b, q) in ranges:
            for ln in range(a, b + 1):
                text = lines[ln - 1]
                if not text.strip() or text.strip().startswith('#') or 'message(' in text or 'Exception(' in text or 'print' in text:
                    continue
                code = text.split('#')[0]
                for pat, rep in OPS:
                    for m in re.finditer(pat, code):
                        new = code[:m.start()] + rep + code[m.end():]
                        if new != code:
                            ms.append((rel, ln, q, text, new))
    rng.shuffle(ms)
    return ms[:limit]


def run_one(prop, m, idx):
    rel, ln, q, old, new = m
    w = tempfile.mkdtemp(prefix='mut_%s_' % prop)
    try:
        subprocess.run('cd /repo && git archive HEAD | tar -x -C %s' % w, shell=True, check=True)
        p = os.path.join(w, rel)
        lines = open(p).read().split('\n')
        lines[ln - 1] = new
        open(p, 'w').write('\n'.join(lines))
        try:
            compile(open(p).read(), p, 'exec')
        except SyntaxError:
            return dict(m=m, status='syntax')
        env = dict(os.environ, REPO=w)
        r = subprocess.run([os.path.join(HERE, 'check'), prop, '--tier', 'quick', '--evidence-dir', os.path.join(w, '.ev')], env=env,
                           capture_output=True, text=True, timeout=1800)
        last = [l for l in r.stdout.split('\n') if l.startswith(prop + ' tier=')]
        mm = re.search(r'obligations=(\d+) discharged=(\d+) out_of_subset=(\d+) native_evaluations=(\d+) failures=(\d+)', last[-1]) if last else None
        if not mm:
            return dict(m=m, status='nocheck', out=r.stdout[-300:] + r.stderr[-300:])
        ob, di, oos, ne, fa = map(int, mm.groups())
        und = oos > 0 or 'UNDECIDED' in r.stdout or 'CHECKER-PROBLEM' in r.stdout
        return dict(m=m, status='ok', obligations=ob, discharged=di, native_failures=fa, exit=r.returncode, undecided=und)
    finally:
        shutil.rmtree(w, ignore_errors=True)


def main():
    prop = sys.argv[1]
    limit = int(sys.argv[2]) if len(sys.argv) > 2 else 30
    rng = random.Random(int(sys.argv[3]) if len(sys.argv) > 3 else 1)
    ms = mutants(prop, rng, limit)
    res = []
    with ThreadPoolExecutor(max_workers=4) as ex:
        for r in ex.map(lambda im: run_one(prop, im[1], im[0]), enumerate(ms)):
            res.append(r)
    alarms = 0
    tab = dict(both=0, native_only=0, deductive_only=0, neither=0, other=0)
    for r in res:
        if r['status'] != 'ok':
            tab['other'] += 1
            continue
        ded_fail = r['discharged'] < r['obligations'] or r['undecided']
        nat_fail = r['native_failures'] > 0
        k = 'both' if ded_fail and nat_fail else ('native_only' if nat_fail else ('deductive_only' if ded_fail else 'neither'))
        tab[k] += 1
        rel, ln, q, old, new = r['m']
        if k == 'native_only':
            alarms += 1
            print('SOUNDNESS-ALARM %s %s:%d [%s]  %r -> %r' % (prop, rel, ln, q, old.strip(), new.strip()))
        elif k == 'neither':
            print('  survived (equivalent or unobservable?) %s:%d [%s] %r -> %r' % (rel, ln, q, old.strip()[:70], new.strip()[:70]))
    print('%s mutants=%d %s alarms=%d' % (prop, len(res), tab, alarms))
    sys.exit(1 if alarms else 0)


if __name__ == '__main__':
    main()
