#!/bin/bash
# usage: selftest/deductive_only.sh <seeded-name>...  : what the deductive part alone says about a seeded change
cd "$(dirname "$0")/.."
for name in "$@"; do
  pid=${name%%_*}; w=$(mktemp -d /tmp/ded.XXXXXX)
  (cd /repo && git archive HEAD) | tar -x -C $w
  patch -s -p1 -d $w -i $(realpath seeded/$name/patch.diff) >/dev/null 2>&1 || echo "$name APPLY-FAILED"
  out=$(REPO=$w ./check $pid --tier quick --no-native --evidence-dir $w/.ev 2>&1); code=$?
  echo "== $name exit=$code"; echo "$out" | grep -E "^(VIOLATION|UNDECIDED|CHECKER|  (refuted|failed))" | cut -c1-220 | head -6
  rm -rf $w
done
