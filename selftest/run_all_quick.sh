#!/bin/bash
# run quick checks of the given property ids in sequence, print summary lines
cd /verif
for p in "$@"; do ./check $p --tier quick 2>&1 | grep -E "^(VIOLATION|KNOWN|UNDECIDED|CHECKER|C[0-9][0-9] tier)" | cut -c1-300; done
