"""Trusted contracts of builtins, str/list/dict/set methods, numpy, math, copy,
itertools and random (DESIGN 1.4).  Each model states what the call returns
in the executor's value domain; these are *assumed*, not proved."""
import builtins
import copy as _copy
import itertools
import math
import random as _random
import time as _time
from fractions import Fraction

import numpy as np
import os
import z3

from . import ops
from .ops import LAM
from .ops import Unsupported
from .values import (Sym, SChar, SSeq, SSet, SDict, ASet, RandVal, Choice, Obj, ExcVal, Opaque, I, R, B, AI, AR, AB, is_symbolic)
from .speclib import SumI, SumR


class WhereIdx(SSeq):
    """index array returned by np.where(cond)[0]: length = count(cond), members = indices satisfying cond"""
    __slots__ = ('pred', 'src_n')


def _interp_types():
    from .interp import RangeVal, EnumVal, Raised
    return RangeVal, EnumVal, Raised


# --------------------------------------------------------------------------- builtins
def m_len(it, fr, x):
    RangeVal, EnumVal, Raised = _interp_types()
    if isinstance(x, RangeVal):
        d = ops.binop('-', x.hi, x.lo)
        return ops.ite(ops.compare('>', d, 0), d, 0) if is_symbolic(d) else max(d, 0)
    if isinstance(x, (Sym,)) or x is None or isinstance(x, (int, Fraction)):
        raise Raised(it.mk_exc('TypeError'))
    return ops.length(x)


def m_range(it, fr, *a):
    RangeVal, EnumVal, Raised = _interp_types()
    a = [ops.collapse(x) if isinstance(x, Choice) else x for x in a]
    for x in a:
        if ops.kind_of(x) == 'real':
            raise Raised(it.mk_exc('TypeError'))
    if len(a) == 1:
        return RangeVal(0, a[0])
    if len(a) == 2:
        return RangeVal(a[0], a[1])
    return RangeVal(a[0], a[1], a[2])


def m_arange(it, fr, *a, **k):
    it.trusted_used.add('numpy.arange(a, b[, step]) = a, a+step, ... below b')
    r = m_range(it, fr, *a)
    r.nd = True
    return r


def range_to_seq(r, kind='nd'):
    RangeVal, EnumVal, Raised = _interp_types()
    j = z3.Int('j!rg')
    lo, hi = ops.z3int(r.lo), ops.z3int(r.hi)
    if not (isinstance(r.step, int) and r.step == 1):
        st = ops.z3int(r.step)
        ops._raise_if(st == 0, 'ZeroDivisionError')
        # positive step (the only use): ceil((hi - lo) / step) elements lo + j*step
        n = z3.If(hi > lo, (hi - lo + st - 1) / st, 0)
        return SSeq(LAM(j, lo + j * st), 0, z3.simplify(n), kind, 'int')
    return SSeq(LAM(j, j + lo), 0, z3.simplify(z3.If(hi > lo, hi - lo, 0)), kind, 'int')


def m_int(it, fr, x=0):
    RangeVal, EnumVal, Raised = _interp_types()
    if isinstance(x, Choice):
        x = ops.collapse(x)
    if isinstance(x, (bool, int)):
        return int(x)
    if isinstance(x, Fraction):
        return int(x)          # truncation, as float -> int
    if isinstance(x, Sym):
        if x.k == 'int':
            return x
        if x.k == 'bool':
            return ops.mk(ops.z3int(x), 'int')
        e = x.e
        return ops.mk(z3.If(e >= 0, z3.ToInt(e), -z3.ToInt(-e)), 'int')
    if isinstance(x, str):
        try:
            return int(x)
        except ValueError:
            raise Raised(it.mk_exc('ValueError'))
    if isinstance(x, SChar):
        d = x.e - 48
        ops._raise_if(z3.Or(d < 0, d > 9), 'ValueError')
        return ops.mk(d, 'int')
    if x is None or isinstance(x, (list, tuple, dict, Obj)):
        raise Raised(it.mk_exc('TypeError'))
    raise Unsupported('int(%r)' % (x,))


def m_float(it, fr, x=0):
    RangeVal, EnumVal, Raised = _interp_types()
    if isinstance(x, Choice):
        x = ops.collapse(x)
    if isinstance(x, (bool, int, Fraction)):
        return Fraction(x)
    if isinstance(x, Sym):
        return ops.mk(ops.z3real(x), 'real')
    if isinstance(x, str):
        try:
            return Fraction(x)
        except ValueError:
            raise Raised(it.mk_exc('ValueError'))
    raise Unsupported('float(%r)' % (x,))


def m_str(it, fr, x=''):
    if isinstance(x, (str, SChar)):
        return x
    if isinstance(x, SSeq) and x.kind == 'str':
        return x
    if isinstance(x, (int, Fraction)) and not is_symbolic(x):
        return str(x) if isinstance(x, int) else Opaque('str(real)')
    return Opaque('str()')


def m_abs(it, fr, x):
    return ops.absval(x)


def m_list(it, fr, x=()):
    RangeVal, EnumVal, Raised = _interp_types()
    if isinstance(x, SSeq):
        return SSeq(x.arr, x.off, x.n, 'list', x.ek)
    if isinstance(x, SChar):
        return [x]
    if isinstance(x, RangeVal):
        if x.concrete():
            return list(range(x.lo, x.hi, x.step))
        return range_to_seq(x, 'list')
    if isinstance(x, SSet):
        return enumerate_set(it, x, ordered=False)
    items = it.concrete_items(x)
    if items is None:
        raise Unsupported('list(%r)' % (x,))
    return list(items)


def m_tuple(it, fr, x=()):
    items = it.concrete_items(x)
    if items is None:
        raise Unsupported('tuple(%r)' % (x,))
    return tuple(items)


def m_set(it, fr, x=()):
    RangeVal, EnumVal, Raised = _interp_types()
    if isinstance(x, WhereIdx):
        return SSet(x.pred, 'int', x.n)
    if isinstance(x, SSet):
        return x
    if isinstance(x, RangeVal):
        if x.concrete():
            return set(range(x.lo, x.hi, x.step))
        j = z3.Int('j!st')
        lo, hi = ops.z3int(x.lo), ops.z3int(x.hi)
        return SSet(LAM(j, z3.And(j >= lo, j < hi)), 'int', z3.simplify(z3.If(hi > lo, hi - lo, 0)), src=('range', lo, hi))
    if isinstance(x, SSeq):
        j = z3.Int('j!st')
        k = z3.Int('k!st')
        pred = LAM(j, z3.Exists([k], z3.And(k >= 0, k < x.n, z3.Select(x.arr, k + x.off) == j)))
        return SSet(pred, x.ek, None, src=x)
    items = it.concrete_items(x)
    if items is None:
        raise Unsupported('set(%r)' % (x,))
    if any(is_symbolic(i) for i in items):
        return ops.to_sset(items)
    return set(items)


def m_sum(it, fr, x, start=0):
    if isinstance(x, SSeq) and z3.is_app(x.arr) and x.arr.decl().kind() == z3.Z3_OP_CONST_ARRAY and x.ek in ('int', 'real'):
        # a constant sequence (c, c, ..., c): n * c   (n >= 0 is the length)
        c = x.arr.arg(0)
        return ops.binop('+', start, ops.mk((z3.ToReal(x.n) if x.ek == 'real' else x.n) * c, x.ek))
    if isinstance(x, SSeq):
        j = z3.Int('j!su')
        if x.ek == 'real':
            return ops.binop('+', start, ops.mk(SumR(LAM(j, z3.Select(x.arr, j)), x.off, z3.simplify(x.off + x.n)), 'real'))
        if x.ek == 'bool':
            return ops.binop('+', start, ops.mk(SumI(LAM(j, z3.If(z3.Select(x.arr, j), z3.IntVal(1), z3.IntVal(0))), x.off, z3.simplify(x.off + x.n)), 'int'))
        return ops.binop('+', start, ops.mk(SumI(LAM(j, z3.Select(x.arr, j)), x.off, z3.simplify(x.off + x.n)), 'int'))
    items = it.concrete_items(x)
    if items is None:
        raise Unsupported('sum(%r)' % (x,))
    acc = start
    for i in items:
        acc = ops.binop('+', acc, i)
    return acc


def _extremum(it, s, kind):
    """min / max of a non-empty symbolic numeric sequence: an element that bounds all the others"""
    RangeVal, EnumVal, Raised = _interp_types()
    if s.ek not in ('int', 'real'):
        raise Unsupported('%s of a sequence of %s' % (kind, s.ek))
    ops._raise_if(s.n <= 0, 'ValueError')
    # an arithmetic progression (a slice of list(range(..))): the extremum is the first / last element, no quantifier needed
    jj = z3.Int('j!mono')
    try:
        d = z3.simplify(z3.Select(s.arr, jj + 1) - z3.Select(s.arr, jj))
    except z3.Z3Exception:
        d = None
    if d is not None and (z3.is_int_value(d) or z3.is_rational_value(d)):
        step = d.as_long() if z3.is_int_value(d) else (1 if d.numerator_as_long() > 0 else (-1 if d.numerator_as_long() < 0 else 0))
        if step != 0:
            first, last = z3.simplify(z3.Select(s.arr, s.off)), z3.simplify(z3.Select(s.arr, s.off + s.n - 1))
            return ops.mk(first if (kind == 'min') == (step > 0) else last, s.ek)
    # the extremum is a function of the sequence: the same sequence always gives the same constants
    key = '%s!%d.%d.%d' % (kind, s.arr.get_id(), z3.simplify(s.off).get_id(), z3.simplify(s.n).get_id())
    m = ops.mk(z3.Const(key, ops.I if s.ek == 'int' else ops.R), s.ek)
    x = ops.mk(z3.Int(key + '.at'), 'int')
    j = z3.Int('j!ext')
    it.assume(z3.And(x.e >= 0, x.e < s.n, z3.Select(s.arr, s.off + x.e) == m.e))
    e = z3.Select(s.arr, s.off + j)
    it.pc.append(z3.ForAll([j], z3.Implies(z3.And(j >= 0, j < s.n), (m.e <= e) if kind == 'min' else (m.e >= e))))
    return m


def m_min(it, fr, *a):
    if len(a) == 1 and isinstance(a[0], SSeq):
        return _extremum(it, a[0], 'min')
    if len(a) == 1:
        a = it.concrete_items(a[0])
        if a is None:
            raise Unsupported('min of symbolic sequence')
    r = a[0]
    for x in a[1:]:
        r = ops.ite(ops.compare('<', x, r), x, r)
    return r


def m_max(it, fr, *a):
    if len(a) == 1 and isinstance(a[0], SSeq):
        return _extremum(it, a[0], 'max')
    if len(a) == 1:
        a = it.concrete_items(a[0])
        if a is None:
            raise Unsupported('max of symbolic sequence')
    r = a[0]
    for x in a[1:]:
        r = ops.ite(ops.compare('>', x, r), x, r)
    return r


def enumerate_set(it, x, ordered):
    """list(s) / sorted(s) of a symbolic set of ints: a duplicate-free enumeration of exactly the members
    (strictly increasing when sorted); length = cardinality"""
    r = it.fresh_seq('enum', 'list', x.ek)
    n = ops.length(x)
    it.assume(r.n == ops.z3int(n))
    j = z3.Int('j!so')
    k = z3.Int('k!so')
    it.pc.append(z3.ForAll([j], z3.Implies(z3.And(j >= 0, j < r.n), z3.Select(x.pred, z3.Select(r.arr, j)))))
    if ordered:
        it.pc.append(z3.ForAll([j, k], z3.Implies(z3.And(j >= 0, j < k, k < r.n), z3.Select(r.arr, j) < z3.Select(r.arr, k))))
    else:
        it.pc.append(z3.ForAll([j, k], z3.Implies(z3.And(j >= 0, j < k, k < r.n), z3.Select(r.arr, j) != z3.Select(r.arr, k))))
    it.trusted_used.add('list(set)/sorted(set): duplicate-free enumeration of the members, length = cardinality')
    return r


def m_sorted(it, fr, x):
    if isinstance(x, SSet):
        return enumerate_set(it, x, ordered=True)
    if isinstance(x, SSet):
        # sorted(set): a strictly increasing enumeration of the members
        r = it.fresh_seq('sorted', 'list', x.ek)
        if x.card is not None:
            it.assume(r.n == x.card)
        j = z3.Int('j!so')
        it.pc.append(z3.ForAll([j], z3.Implies(z3.And(j >= 0, j < r.n), z3.Select(x.pred, z3.Select(r.arr, j)))))
        k = z3.Int('k!so')
        it.pc.append(z3.ForAll([j, k], z3.Implies(z3.And(j >= 0, j < k, k < r.n), z3.Select(r.arr, j) < z3.Select(r.arr, k))))
        it.pc.append(z3.ForAll([k], z3.Implies(z3.Select(x.pred, k), z3.Exists([j], z3.And(j >= 0, j < r.n, z3.Select(r.arr, j) == k)))))
        return r
    items = it.concrete_items(x)
    if items is not None and len(items) == 2 and all(isinstance(i, (Sym, int, Fraction)) for i in items):
        # two numbers: [min, max]
        a, b = items
        lt = ops.compare('<=', a, b)
        return [ops.ite(lt, a, b), ops.ite(lt, b, a)]
    if items is None or any(is_symbolic(i) for i in items):
        raise Unsupported('sorted of symbolic values')
    return sorted(items)


def m_enumerate(it, fr, x, start=0):
    RangeVal, EnumVal, Raised = _interp_types()
    return EnumVal(x, start)


def m_zip(it, fr, *xs):
    lists = [it.concrete_items(x) for x in xs]
    if any(l is None for l in lists):
        raise Unsupported('zip of symbolic sequences')
    return list(zip(*lists))


def m_isinstance(it, fr, x, t):
    ts = t if isinstance(t, tuple) else (t,)
    return any(_isinst(x, tt) for tt in ts)


def pyclass_of(x):
    if isinstance(x, (SChar,)) or (isinstance(x, SSeq) and x.kind == 'str'):
        return str
    if isinstance(x, SSeq):
        return {'list': list, 'nd': np.ndarray, 'tuple': tuple}[x.kind]
    if isinstance(x, Sym):
        return {'int': int, 'real': float, 'bool': bool}[x.k]
    if isinstance(x, Fraction):
        return float
    if isinstance(x, SSet):
        return set
    if isinstance(x, Obj):
        return x.cls
    if isinstance(x, Choice):
        raise Unsupported('type of guarded union')
    return type(x)


def _isinst(x, t):
    c = pyclass_of(x)
    try:
        return issubclass(c, t)
    except TypeError:
        raise Unsupported('isinstance with %r' % (t,))


def m_print(it, fr, *a, **k):
    it.dropped.add('print')
    return None


def m_round(it, fr, x, nd=None):
    if not is_symbolic(x):
        return Fraction(round(x, nd)) if nd else round(x)
    raise Unsupported('round of symbolic')


def m_bool(it, fr, x=False):
    if is_symbolic(x):
        return ops.mk(ops.z3bool(x), 'bool')
    return bool(x)


def m_dict(it, fr, *a, **k):
    if not a and not k:
        return {}
    if len(a) == 1 and isinstance(a[0], dict):
        return dict(a[0])
    raise Unsupported('dict()')


def m_hasattr(it, fr, o, name):
    if isinstance(o, Obj):
        return name in o.fields or hasattr(o.cls, name)
    return hasattr(o, name)


class FileName:
    """a file name whose content is given as ghost state: the list of its lines (symbolic strings)"""

    def __init__(self, lines):
        self.lines = lines

    def __repr__(self):
        return 'FileName<%d lines>' % len(self.lines)


class FileVal:
    def __init__(self, lines):
        self.lines = lines


def m_open(it, fr, *a, **k):
    if a and isinstance(a[0], FileName) and (len(a) == 1 or a[1] in ('r', 'rt')):
        it.trusted_used.add('open(name).readlines(): the lines of the file are the ghost content attached to the name (file system not modelled)')
        return FileVal(a[0].lines)
    return Opaque('file')


def strip_seq(it, base):
    """str.strip() without arguments: the slice [a, b) where a is the first and b-1 the last non-white-space position (a = b = n when
    there is none). a and b are functions of the string, so the same string always gives the same constants"""
    s = ops.to_sseq(base)
    key = '%d.%d.%d' % (s.arr.get_id(), z3.simplify(s.off).get_id(), z3.simplify(s.n).get_id())
    a, b = z3.Int('strip.lo!' + key), z3.Int('strip.hi!' + key)
    j = z3.Int('j!strip')
    ws = lambda i: isspace_code(z3.Select(s.arr, s.off + i))
    it.assume(z3.And(0 <= a, a <= b, b <= s.n,
                     z3.ForAll([j], z3.Implies(z3.And(0 <= j, j < a), ws(j))),
                     z3.ForAll([j], z3.Implies(z3.And(b <= j, j < s.n), ws(j))),
                     z3.Implies(a < b, z3.And(z3.Not(ws(a)), z3.Not(ws(b - 1)))),
                     z3.Implies(a == b, a == s.n)))
    return SSeq(s.arr, z3.simplify(s.off + a), z3.simplify(b - a), 'str', 'char')


# --------------------------------------------------------------------------- numpy
def as_nd(x):
    RangeVal, EnumVal, Raised = _interp_types()
    if isinstance(x, RangeVal):
        return range_to_seq(x)
    if isinstance(x, SSeq):
        return SSeq(x.arr, x.off, x.n, 'nd', x.ek)
    if isinstance(x, (list, tuple)):
        s = ops.to_sseq(list(x))
        return SSeq(s.arr, s.off, s.n, 'nd', s.ek)
    raise Unsupported('as ndarray: %r' % (x,))


def m_np_where(it, fr, cond):
    if not (isinstance(cond, SSeq) and cond.ek == 'bool'):
        raise Unsupported('np.where of %r' % (cond,))
    j = z3.Int('j!wh')
    c01 = LAM(j, z3.If(z3.Select(cond.arr, j), z3.IntVal(1), z3.IntVal(0)))
    n = SumI(c01, cond.off, z3.simplify(cond.off + cond.n))
    nm = it.fresh_name('where')
    w = WhereIdx(z3.Const(nm, AI), 0, n, 'nd', 'int')
    w.pred = LAM(j, z3.And(j >= 0, j < cond.n, z3.Select(cond.arr, j + cond.off)))
    w.src_n = cond.n
    it.trusted_used.add('numpy.where')
    return (w,)


def m_np_append(it, fr, arr, v):
    it.trusted_used.add('numpy.append')
    if isinstance(arr, list) and len(arr) == 0:
        ek = ops.elem_kind_of_value(v)
        if ek is None:
            raise Unsupported('np.append of %r' % (v,))
        s = ops.to_sseq([v])
        return SSeq(s.arr, s.off, s.n, 'nd', s.ek)
    a = as_nd(arr)
    return ops.append_seq(a, v)


def m_np_vstack(it, fr, rows):
    it.trusted_used.add('numpy.vstack')
    out = []
    for r in rows:
        if isinstance(r, tuple) and r and isinstance(r[0], (SSeq, list)) and getattr(r, '_is2d', False):
            out.extend(r)
        elif isinstance(r, Stack2D):
            out.extend(r.rows)
        else:
            RangeVal, EnumVal, Raised = _interp_types()
            out.append(as_nd(r) if isinstance(r, (RangeVal, list)) and not _rows_like(r) else r)
    # numpy requires equal row lengths
    n0 = row_len(out[0])
    for r in out[1:]:
        ops._raise_if(ops.z3bool(ops.compare('!=', row_len(r), n0)) if is_symbolic(ops.compare('!=', row_len(r), n0))
                      else ops.compare('!=', row_len(r), n0), 'ValueError')
    return Stack2D(out)


def _rows_like(r):
    return False


def row_len(r):
    return ops.length(r)


class Stack2D(tuple):
    """2-D array as a tuple of rows"""

    def __new__(cls, rows):
        t = super().__new__(cls, rows)
        return t

    @property
    def rows(self):
        return list(self)


def m_np_power(it, fr, a, b):
    b = ops.to_frac(b)
    if not is_symbolic(a) and ops.to_frac(a) == 10:
        it.trusted_used.add('numpy.power(10,x)=pow10')
        return ops.mk(ops._uf(ops.POW10, ops.z3real(b)), 'real')
    if not is_symbolic(a) and a == 2 and not is_symbolic(b) and isinstance(b, int):
        return 2 ** b
    if not is_symbolic(a) and a == 2:
        raise Unsupported('2**symbolic')
    return ops.power(a, b)


def m_np_mod(it, fr, a, b):
    return ops.binop('%', a, b)


def m_np_sqrt(it, fr, a):
    return ops.mk(ops._uf(ops.SQRT, ops.z3real(a)), 'real')


def m_np_exp(it, fr, a):
    return ops.mk(ops._uf(ops.EXP, ops.z3real(a)), 'real')


def m_np_log(it, fr, a):
    return ops.mk(ops._uf(ops.LN, ops.z3real(a)), 'real')


def m_np_mean(it, fr, a):
    it.trusted_used.add('numpy.mean = sum / length')
    s = ops.to_sseq(a) if not isinstance(a, SSeq) else a
    tot = m_sum(it, fr, s)
    return ops.binop('/', tot, ops.mk(s.n, 'int'))


def m_np_abs(it, fr, a):
    return ops.absval(a) if not isinstance(a, SSeq) else (_ for _ in ()).throw(Unsupported('abs of array'))


def m_np_array(it, fr, a, **k):
    return as_nd(a)


def m_math_log(it, fr, x, base=None):
    if base is None:
        return ops.mk(ops._uf(ops.LN, ops.z3real(x)), 'real')
    it.trusted_used.add('math.log(x,b)=logb')
    return ops.mk(ops._uf(ops.LOGB, ops.z3real(x), ops.z3real(base)), 'real')


def m_floor(it, fr, x):
    if not is_symbolic(x):
        return math.floor(x)
    if x.k == 'int':
        return x
    return ops.mk(z3.ToInt(x.e), 'int')


def m_ceil(it, fr, x):
    if not is_symbolic(x):
        return math.ceil(x)
    if x.k == 'int':
        return x
    return ops.mk(-z3.ToInt(-x.e), 'int')


def m_deepcopy(it, fr, x):
    it.trusted_used.add('copy.deepcopy')
    if is_symbolic(x) or x is None or isinstance(x, (int, Fraction, str)):
        return x        # symbolic values are immutable
    if isinstance(x, (list, dict, set, tuple)):
        return _copy.copy(x) if not any(isinstance(i, (list, dict, set)) for i in (x if not isinstance(x, dict) else x.values())) else _copy.deepcopy(x)
    raise Unsupported('deepcopy of %r' % (x,))


def m_time(it, fr):
    it.dropped.add('time.time()')
    return Opaque('time')


def m_path_join(it, fr, *parts):
    it.dropped.add('os.path.join()')
    return Opaque('path')


ARGMIN = z3.Function('argmin', z3.ArraySort(z3.IntSort(), z3.RealSort()), z3.IntSort(), z3.IntSort())


NEAREST = z3.Function('nearest', z3.ArraySort(z3.IntSort(), z3.RealSort()), z3.IntSort(), z3.RealSort(), z3.IntSort())


def m_np_argmin(it, fr, a):
    """numpy.argmin of a non-empty 1-d array: the FIRST index of a minimal element.  The result is a function of the (re-based) array and its
    length, so two calls on equal arrays give the same index; the characterisation is assumed per call (trusted numpy semantics)."""
    it.trusted_used.add('numpy.argmin = first index of a minimal element')
    s = ops.to_sseq(a) if not isinstance(a, SSeq) else a
    if s.ek not in ('real', 'int'):
        raise Unsupported('argmin of non-numeric array')
    ops._raise_if(s.n <= 0, 'ValueError')
    J = z3.Int('j!am')
    el = z3.Select(s.arr, z3.simplify(s.off + J))
    arr = ops.LAM(J, z3.ToReal(el) if s.ek == 'int' else el)
    pv = ops.PROV.get(s.arr.get_id())
    if pv is not None and pv[0] == 'absdiff' and z3.is_int_value(z3.simplify(s.off)) and z3.simplify(s.off).as_long() == 0:
        # argmin(abs(c - k)): the index is a function of the array c, its length and the SCALAR k, so that equal scalars give equal indices by
        # congruence (no reasoning about equality of lambda terms is needed)
        base = pv[1]
        carr = ops.LAM(J, z3.Select(base.arr, z3.simplify(base.off + J)))
        r = NEAREST(carr, s.n, pv[2])
    else:
        r = ARGMIN(arr, s.n)
    at = lambda i: z3.Select(arr, i)
    it.pc.append(z3.And(r >= 0, r < s.n))
    it.pc.append(z3.ForAll([J], z3.Implies(z3.And(J >= 0, J < s.n), at(r) <= at(J))))
    it.pc.append(z3.ForAll([J], z3.Implies(z3.And(J >= 0, J < r), at(J) > at(r))))
    return ops.mk(r, 'int')


def m_product(it, fr, *seqs, repeat=1):
    it.trusted_used.add('itertools.product')
    if is_symbolic(repeat):
        raise Unsupported('itertools.product with symbolic repeat')
    return list(itertools.product(*seqs, repeat=repeat))


# --------------------------------------------------------------------------- methods on values
def value_method(it, fr, base, name, args, kwargs):
    """returns (result, new_base, mutated)"""
    RangeVal, EnumVal, Raised = _interp_types()
    if isinstance(base, ASet):
        if name == 'add':
            d = it.fresh('added', 'int')
            it.assume(z3.And(d.e >= 0, d.e <= 1))
            return None, ASet(z3.simplify(base.card + d.e)), True
        raise Unsupported('method %s on abstract set' % name)
    if isinstance(base, (set, frozenset)) and name == 'add' and args and isinstance(args[0], (SSeq, SChar)):
        # a symbolic string enters a (so far concrete) set: from here on only the cardinality is tracked
        it.trusted_used.add('set of symbolic strings abstracted to its cardinality')
        d = it.fresh('added', 'int')
        it.assume(z3.And(d.e >= 0, d.e <= 1))
        return None, ASet(z3.simplify(z3.IntVal(len(base)) + d.e)), True
    if isinstance(base, RandVal):
        if name == 'shuffle':
            raise Unsupported('shuffle handled by the interpreter')
        return rand_method(it, fr, base, name, args, kwargs), base, False
    if isinstance(base, FileVal):
        if name == 'readlines' and not args:
            return list(base.lines), base, False
        if name in ('close', '__enter__', '__exit__'):
            return None, base, False
        raise Unsupported('file method ' + name)
    # ---- strings
    if isinstance(base, (str, SChar)) or (isinstance(base, SSeq) and base.kind == 'str'):
        return str_method(it, fr, base, name, args, kwargs)
    if isinstance(base, SSeq):
        return seq_method(it, fr, base, name, args, kwargs)
    if isinstance(base, list):
        if name in ('append', 'extend', 'insert', 'sort', 'reverse', 'clear', 'remove'):
            if name == 'append' or not any(is_symbolic(a) for a in args):
                getattr(base, name)(*args, **kwargs)
                return None, base, False
        if name == 'pop':
            if not base:
                raise Raised(it.mk_exc('IndexError'))
            if args and is_symbolic(args[0]):
                raise Unsupported('pop at symbolic index from concrete list')
            return base.pop(*args), base, False
        if name == 'count':
            r = 0
            for x in base:
                r = ops.binop('+', r, ops.ite(ops.equal(x, args[0]), 1, 0))
            return r, base, False
        if name == 'index' and not any(is_symbolic(x) for x in base) and not is_symbolic(args[0]):
            try:
                return base.index(args[0]), base, False
            except ValueError:
                raise Raised(it.mk_exc('ValueError'))
        if name == 'copy':
            return list(base), base, False
    if isinstance(base, tuple):
        if name == 'count':
            return sum(1 for x in base if x == args[0]), base, False
    if isinstance(base, dict):
        if name == 'keys':
            return list(base.keys()), base, False
        if name == 'values':
            return list(base.values()), base, False
        if name == 'items':
            return list(base.items()), base, False
        if name == 'get':
            if not is_symbolic(args[0]):
                return base.get(*args), base, False
        if name == 'copy':
            return dict(base), base, False
        if name == 'update' and isinstance(args[0], dict):
            base.update(args[0])
            return None, base, False
    if isinstance(base, (set, frozenset)):
        if name == 'add':
            if is_symbolic(args[0]):
                raise Unsupported('add symbolic to concrete set')
            base.add(args[0])
            return None, base, False
        if name in ('union', 'intersection', 'difference', 'issubset', 'copy'):
            return getattr(base, name)(*args), base, False
    if isinstance(base, SSet):
        pass
    if isinstance(base, (int, Fraction, Sym)) and name == '__class__':
        return pyclass_of(base), base, False
    if isinstance(base, RangeVal):
        pass
    if name in ('upper', 'lower', 'strip', 'isspace', 'split') and not isinstance(base, (str, SChar, SSeq)):
        raise Raised(it.mk_exc('AttributeError'))
    raise Unsupported('method %s on %s' % (name, type(base).__name__))


UPPER = z3.Function('chr_upper', I, I)
LOWER = z3.Function('chr_lower', I, I)
ISSPACE = z3.Function('chr_isspace', I, B)


def upper_code(c):
    """ASCII letters are mapped exactly; other code points through the trusted chr_upper"""
    return z3.If(z3.And(c >= 97, c <= 122), c - 32, z3.If(c < 128, c, UPPER(c)))


def lower_code(c):
    return z3.If(z3.And(c >= 65, c <= 90), c + 32, z3.If(c < 128, c, LOWER(c)))


def isspace_code(c):
    # ASCII white space exactly; beyond ASCII the trusted classifier
    return z3.If(c < 128, z3.Or(z3.And(c >= 9, c <= 13), z3.And(c >= 28, c <= 32)), ISSPACE(c))


def str_method(it, fr, base, name, args, kwargs):
    RangeVal, EnumVal, Raised = _interp_types()
    conc = isinstance(base, str)
    if conc and not any(is_symbolic(a) or isinstance(a, (list,)) and any(is_symbolic(x) for x in a) for a in args) \
            and name not in ('join',):
        try:
            return getattr(base, name)(*args, **kwargs), base, False
        except AttributeError:
            raise Raised(it.mk_exc('AttributeError'))
    if name in ('upper', 'lower'):
        f = upper_code if name == 'upper' else lower_code
        it.trusted_used.add('str.%s: ASCII exact, same length assumed for non-ASCII (chr_%s)' % (name, name))
        if isinstance(base, SChar):
            return SChar(z3.simplify(f(base.e))), base, False
        s = ops.to_sseq(base)
        j = z3.Int('j!up')
        return SSeq(LAM(j, f(z3.Select(s.arr, j))), s.off, s.n, 'str', 'char'), base, False
    if name == 'strip' and not args and isinstance(base, SSeq):
        return strip_seq(it, base), base, False
    if name == 'isspace':
        if isinstance(base, SChar):
            return ops.mk(isspace_code(base.e), 'bool'), base, False
        raise Unsupported('isspace on multi-char symbolic string')
    if name == 'count':
        s = ops.to_sseq(base)
        c = ops.char_code(args[0])
        if c is None:
            raise Unsupported('count of non-char')
        j = z3.Int('j!ct')
        arr = LAM(j, z3.If(z3.Select(s.arr, j) == c, z3.IntVal(1), z3.IntVal(0)))
        return ops.mk(SumI(arr, s.off, z3.simplify(s.off + s.n)), 'int'), base, False
    if name == 'join':
        x = args[0]
        if base == '':
            if isinstance(x, SSeq) and x.ek == 'char':
                return SSeq(x.arr, x.off, x.n, 'str', 'char'), base, False
            if isinstance(x, (list, tuple)):
                if all(isinstance(e, str) for e in x):
                    return ''.join(x), base, False
                acc = ''
                for e in x:
                    acc = ops.concat(acc, e)
                return acc, base, False
        raise Unsupported('join with separator / non-char list')
    if name == '__class__':
        return str, base, False
    if name == 'strip' and isinstance(base, SSeq):
        raise Unsupported('strip on symbolic string')
    raise Unsupported('str method %s on symbolic string' % name)


def seq_method(it, fr, base, name, args, kwargs):
    RangeVal, EnumVal, Raised = _interp_types()
    if name == 'append':
        return None, ops.append_seq(base, args[0]), True
    if name == 'pop':
        ops._raise_if(base.n <= 0, 'IndexError')
        if not args:
            v = base.at(z3.simplify(base.n - 1))
            return v, SSeq(base.arr, base.off, z3.simplify(base.n - 1), base.kind, base.ek), True
        if not is_symbolic(args[0]) and args[0] == 0:
            v = base.at(0)
            return v, SSeq(base.arr, z3.simplify(base.off + 1), z3.simplify(base.n - 1), base.kind, base.ek), True
        raise Unsupported('pop at general index')
    if name == 'count':
        c = ops.char_code(args[0]) if base.ek == 'char' else (ops.z3real(args[0]) if base.ek == 'real' else ops.z3int(args[0]))
        j = z3.Int('j!ct')
        arr = LAM(j, z3.If(z3.Select(base.arr, j) == c, z3.IntVal(1), z3.IntVal(0)))
        return ops.mk(SumI(arr, base.off, z3.simplify(base.off + base.n)), 'int'), base, False
    if name == 'size':
        return ops.length(base), base, False
    if name == '__class__':
        return pyclass_of(base), base, False
    if name == 'copy':
        return base, base, False
    raise Unsupported('method %s on symbolic sequence' % name)


def m_Random(it, fr, *a):
    it.trusted_used.add('random.Random: sample = k distinct members of a sequence population, shuffle = permutation, randint in [a,b], random in [0,1)')
    return RandVal()


def rand_method(it, fr, base, name, args, kwargs):
    RangeVal, EnumVal, Raised = _interp_types()
    if name == 'seed':
        return None
    if name == 'random':
        u = it.fresh('u', 'real')
        it.assume(z3.And(u.e >= 0, u.e < 1))
        if not it.in_spec and len(it.frames) <= 1:
            it.rand_log.append(u)
        return u
    if name == 'randint':
        a, b = ops.z3int(args[0]), ops.z3int(args[1])
        ops._raise_if(b < a, 'ValueError')
        r = it.fresh('randint', 'int')
        it.assume(z3.And(r.e >= a, r.e <= b))
        return r
    if name == 'sample':
        pop, k = args[0], args[1]
        if isinstance(pop, (SSet, set, frozenset, dict)):
            raise Raised(it.mk_exc('TypeError'))        # Python >= 3.11: population must be a sequence
        if is_symbolic(k):
            raise Unsupported('sample of symbolic size')
        s = ops.to_sseq(pop) if not isinstance(pop, SSeq) else pop
        ops._raise_if(s.n < k, 'ValueError')
        idx = [it.fresh('pick', 'int') for _ in range(k)]
        for i, x in enumerate(idx):
            it.assume(z3.And(x.e >= 0, x.e < s.n))
            for y in idx[:i]:
                it.assume(x.e != y.e)
        return [s.at(x.e) for x in idx]
    if name == 'shuffle':
        raise Unsupported('shuffle must be applied to a variable')
    raise Unsupported('random.Random.%s' % name)


def shuffled(it, s):
    """rand.shuffle(x): x becomes a permutation of its former content (same length, bijective index map)"""
    s = ops.to_sseq(s)
    r = it.fresh_seq('shuf', s.kind, s.ek)
    it.assume(r.n == s.n)
    pi = z3.Const(it.fresh_name('pi'), AI)
    j = z3.Int('j!sh')
    k = z3.Int('k!sh')
    it.pc.append(z3.ForAll([j], z3.Implies(z3.And(j >= 0, j < s.n), z3.And(z3.Select(pi, j) >= 0, z3.Select(pi, j) < s.n,
                                                                             z3.Select(r.arr, j) == z3.Select(s.arr, z3.Select(pi, j) + s.off)))))
    it.pc.append(z3.ForAll([j, k], z3.Implies(z3.And(j >= 0, j < k, k < s.n), z3.Select(pi, j) != z3.Select(pi, k))))
    return r


# --------------------------------------------------------------------------- registry
def build_models():
    M = {}
    for f, m in [(len, m_len), (range, m_range), (int, m_int), (float, m_float), (str, m_str), (abs, m_abs),
                 (list, m_list), (tuple, m_tuple), (set, m_set), (sum, m_sum), (min, m_min), (max, m_max),
                 (sorted, m_sorted), (enumerate, m_enumerate), (zip, m_zip), (isinstance, m_isinstance),
                 (print, m_print), (round, m_round), (bool, m_bool), (dict, m_dict), (hasattr, m_hasattr),
                 (open, m_open),
                 (np.where, m_np_where), (np.append, m_np_append), (np.arange, m_arange), (np.vstack, m_np_vstack),
                 (np.power, m_np_power), (np.mod, m_np_mod), (np.sqrt, m_np_sqrt), (np.exp, m_np_exp),
                 (np.log, m_np_log), (np.array, m_np_array), (np.mean, m_np_mean),
                 (math.log, m_math_log), (math.floor, m_floor), (math.ceil, m_ceil),
                 (_copy.deepcopy, m_deepcopy), (_time.time, m_time), (os.path.join, m_path_join), (np.argmin, m_np_argmin), (itertools.product, m_product), (_random.Random, m_Random)]:
        M[f] = m
    return M
