"""Path-by-path symbolic executor over the AST of the repository's functions.

One *run* executes one path from the entry of the function under contract;
non-deterministic points (symbolic branches, loop cuts, callee outcomes)
consume a *script* of choices and a driver enumerates scripts depth first
(re-execution from the start: the state is never forked, so ordinary Python
aliasing/mutation semantics of lists, dicts and objects come for free).
"""
import ast
import time
import copy
import math
from fractions import Fraction
import z3

from . import ops
from .ops import LAM
from .ops import Unsupported
from .values import (Sym, SChar, SSeq, SSet, SDict, ASet, RandVal, Choice, Obj, ExcVal, Opaque, I, R, B, AI, AR, AB,
                     wrap_elem, is_symbolic)
from .sandbox import float_const_to_fraction


class PathEnd(Exception):
    pass


class NeedChoice(Exception):
    def __init__(self, n):
        self.n = n


class Restart(Exception):
    pass


class Returned(Exception):
    def __init__(self, value):
        self.value = value


class Raised(Exception):
    def __init__(self, exc):
        self.exc = exc


class BreakEx(Exception):
    pass


class ContinueEx(Exception):
    pass


class RangeVal:
    def __init__(self, lo, hi, step=1, nd=False):
        self.lo, self.hi, self.step, self.nd = lo, hi, step, nd

    def concrete(self):
        return all(isinstance(x, int) and not isinstance(x, bool) for x in (self.lo, self.hi, self.step))


class EnumVal:
    def __init__(self, it, start=0):
        self.it, self.start = it, start


class BoundSpecial:
    """bound method of a modelled value"""

    def __init__(self, base, name, loc=None):
        self.base, self.name, self.loc = base, name, loc


class Frame:
    def __init__(self, fi, env, spec=False, ns=None):
        self.fi = fi
        self.env = env
        self.spec = spec
        self.ns = ns if ns is not None else (fi.module.ns if fi is not None else {})
        self.cls = fi.cls if fi is not None else None
        self.loop_ord = {}


def _has_q(f):
    from .solve import _has_quant
    return _has_quant(f)


class Obligation:
    __slots__ = ('name', 'pc', 'goal', 'kind', 'func', 'line', 'hints', 'path', 'note')

    def __init__(self, name, pc, goal, kind, func, line, hints, path, note=''):
        self.name, self.pc, self.goal, self.kind = name, pc, goal, kind
        self.func, self.line, self.hints, self.path, self.note = func, line, hints, path, note


DROPPED_CALLS = {'localcider/backend/backendtools.py:' + f for f in
                 ('warning_message', 'status_message', 'running_dotdotdot', 'warn_thisWillBeRemoved', 'warn_notReadyYet')}
MUTATORS = {'append', 'pop', 'extend', 'insert', 'remove', 'sort', 'reverse', 'add', 'discard', 'update', 'clear'}


class Interp:
    def __init__(self, sb, contracts, loops, models, feas):
        self.sb = sb
        self.contracts = contracts      # key -> contract dict
        self.loops = loops              # key -> {ordinal: loopspec}
        self.models = models            # python object id -> model callable
        self.feas = feas                # feasibility oracle: list[z3 Bool] -> bool
        self.obligations = []
        self.promote = {}               # (key, ordinal) -> set of names havoc'd as real
        self.notes = []
        self.inlined = set()
        self.contract_used = set()
        self.trusted_used = set()
        self.dropped = set()
        self.depth = 0
        self.top_key = None
        self.spec_env = {}
        self.hints = []
        self.reset([])

    # ------------------------------------------------------------------ run state
    def reset(self, script):
        self.script = list(script)
        self.pos = 0
        self.pc = []
        self.counter = {}
        self.in_spec = 0
        self.frames = []
        self.effects = []
        self.rand_log = []      # uniform draws of random.Random().random() on this path, in program order
        ops.set_raise_hook(self._raise_hook)
        ops._card_hook = self._card_of

    def _card_of(self, sset):
        """cardinality of a symbolic set (trusted model): a fresh c >= 0 with  c == 0  <->  the set is empty"""
        c = z3.Int(self.fresh_name('card'))
        j = z3.Int('j!cd')
        self.pc.append(c >= 0)
        self.pc.append((c == 0) == z3.ForAll([j], z3.Not(z3.Select(sset.pred, j))))
        self.trusted_used.add('len(set): fresh cardinality, zero exactly when the set is empty')
        return c

    def fresh_name(self, prefix):
        n = self.counter.get(prefix, 0)
        self.counter[prefix] = n + 1
        return '%s!%d' % (prefix, n)

    def fresh(self, prefix, kind):
        nm = self.fresh_name(prefix)
        if kind == 'int':
            return Sym(z3.Int(nm), 'int')
        if kind == 'real':
            return Sym(z3.Real(nm), 'real')
        if kind == 'bool':
            return Sym(z3.Bool(nm), 'bool')
        if kind == 'char':
            return SChar(z3.Int(nm))
        raise ValueError(kind)

    def fresh_seq(self, prefix, kind, ek, n=None):
        nm = self.fresh_name(prefix)
        arr = z3.Const(nm, {'char': AI, 'int': AI, 'real': AR, 'bool': AB}[ek])
        if n is None:
            n = z3.Int(nm + '.n')
            self.assume(n >= 0)
        return SSeq(arr, 0, n, kind, ek)

    def fresh_typed(self, prefix, ty):
        ty = ty.strip()
        if ty in ('int', 'real', 'bool', 'char'):
            return self.fresh(prefix, ty)
        if ty == 'nat':
            v = self.fresh(prefix, 'int')
            self.assume(v.e >= 0)
            return v
        if ty == 'str':
            return self.fresh_seq(prefix, 'str', 'char')
        if ty == 'none':
            return None
        for k in ('list', 'nd', 'tuple'):
            if ty.startswith(k + '['):
                return self.fresh_seq(prefix, k, ty[len(k) + 1:-1])
        if ty.startswith('set['):
            nm = self.fresh_name(prefix)
            return SSet(z3.Const(nm, AB), ty[4:-1], None)
        if ty.startswith('optional['):
            inner = self.fresh_typed(prefix, ty[9:-1])
            b = z3.Bool(self.fresh_name(prefix + '.isnone'))
            return Choice([(b, None), (z3.Not(b), inner)])
        if ty == 'aset':
            c = z3.Int(self.fresh_name(prefix + '.card'))
            self.assume(c >= 0)
            return ASet(c)
        if ty.startswith('sdict['):
            ek = ty[6:-1]
            nm = self.fresh_name(prefix)
            return SDict(z3.Const(nm + '.dom', AB), z3.Const(nm + '.val', {'char': AI, 'int': AI, 'real': AR}[ek]), ek)
        if ty.startswith('rows:'):
            from .models import Stack2D
            return Stack2D([self.fresh_seq('%s.row%d' % (prefix, i), 'nd', ek) for i, ek in enumerate(ty[5:].split(','))])
        if ty.startswith('dict:'):
            _, keys, vt = ty.split(':')
            return {k: self.fresh_typed('%s[%s]' % (prefix, k), vt) for k in keys}
        if ty == 'opaque':
            return Opaque(prefix)
        if ty == 'seqobj':
            # an instance of the library's Sequence class with unconstrained fields (the invariant says what holds of it)
            mod = self.sb.load('localcider.backend.sequence')
            o = Obj(mod.Sequence, self.fresh_name(prefix))
            o.fields.update(seq=self.fresh_seq(prefix + '.seq', 'str', 'char'), len=self.fresh(prefix + '.len', 'int'),
                            chargePattern=self.fresh_seq(prefix + '.cp', 'nd', 'int'), dmax=self.fresh(prefix + '.dmax', 'real'),
                            seqDeltaMax=None, phosphosites=[], aminoAcidColorMap=Opaque('palette'),
                            ComplexityObject=Obj(mod.SequenceComplexity, 'cx'))
            return o
        raise Unsupported('unknown type %r' % ty)

    def provable(self, cond, timeout_ms=8000):
        """a full (not the light) solver query on the current path condition, for side conditions the executor itself relies on"""
        from . import solve
        ob = Obligation('side-condition', list(self.pc), cond, 'side', self.top_key, self.cur_line, list(self.hints), (), '')
        try:
            return solve.discharge(ob, timeout_ms, use_cli=False)['verdict'] == 'proved'
        except Exception:      # noqa
            return False

    def assume(self, cond):
        if isinstance(cond, bool):
            if not cond:
                raise PathEnd('assume false')
            return
        if isinstance(cond, Sym):
            cond = ops.z3bool(cond)
        cond = z3.simplify(cond)
        if z3.is_true(cond):
            return
        if z3.is_false(cond):
            raise PathEnd('assume false')
        self.pc.append(cond)

    def choose(self, n):
        if n <= 1:
            return 0
        if self.pos < len(self.script):
            c = self.script[self.pos]
            self.pos += 1
            return c
        raise NeedChoice(n)

    def feasible(self, extra):
        return self.feas(self.pc + [extra])

    def branch(self, cond):
        """decide a (possibly symbolic) condition; returns a Python bool"""
        if not isinstance(cond, (Sym, Choice, SSeq, SSet)) and not z3.is_expr(cond):
            if isinstance(cond, (Obj, Opaque, SChar)):
                return True
            return bool(cond)
        c = z3.simplify(ops.z3bool(cond))
        if z3.is_true(c):
            return True
        if z3.is_false(c):
            return False
        ft = self.feasible(c)
        ff = self.feasible(z3.Not(c))
        if ft and ff:
            side = self.choose(2) == 0
        elif ft:
            side = True
        elif ff:
            side = False
        else:
            raise PathEnd('infeasible path')
        self.pc.append(c if side else z3.simplify(z3.Not(c)))
        return side

    def _raise_hook(self, cond, excname):
        """implicit exception raised by a primitive operation"""
        if self.in_spec:
            return
        if isinstance(cond, bool):
            if cond:
                raise Raised(self.mk_exc(excname))
            return
        c = z3.simplify(cond)
        if z3.is_false(c):
            return
        if z3.is_true(c):
            raise Raised(self.mk_exc(excname))
        if not self.feasible(c):
            self.implicit_safe += 1
            return
        if self.feasible(z3.Not(c)):
            side = self.choose(2)
        else:
            side = 0
        if side == 0:
            self.pc.append(c)
            raise Raised(self.mk_exc(excname))
        self.pc.append(z3.simplify(z3.Not(c)))

    implicit_safe = 0

    def mk_exc(self, excname):
        import builtins
        cls = getattr(builtins, excname, None)
        if cls is None:
            cls = self.exc_classes.get(excname)
        return ExcVal(cls, ())

    exc_classes = {}

    # ------------------------------------------------------------------ obligations
    def oblige(self, name, goal, kind='assert', line=None, note=''):
        func = self.frames[-1].fi.key if self.frames and self.frames[-1].fi else self.top_key
        if isinstance(goal, Sym):
            goal = ops.z3bool(goal)
        elif not z3.is_expr(goal):
            if isinstance(goal, (Choice, SSeq)):
                goal = ops.z3bool(goal)
            else:
                goal = z3.BoolVal(bool(goal))
        self.obligations.append(Obligation(name, list(self.pc), goal, kind, func, line, list(self.hints),
                                           tuple(self.script[:self.pos]), note))

    # ------------------------------------------------------------------ expression evaluation
    def eval(self, node, fr):
        m = getattr(self, 'e_' + type(node).__name__, None)
        if m is None:
            raise Unsupported('expression %s (line %s)' % (type(node).__name__, getattr(node, 'lineno', '?')))
        return m(node, fr)

    def e_Constant(self, node, fr):
        v = node.value
        if isinstance(v, float):
            src = fr.fi.module.source if fr.fi is not None else None
            if src is not None and hasattr(node, 'lineno') and not fr.spec:
                return float_const_to_fraction(node, src)
            return Fraction(repr(v))
        return v

    def e_Name(self, node, fr):
        nm = node.id
        if nm in fr.env:
            return fr.env[nm]
        if fr.spec and nm in self.spec_env:
            return self.spec_env[nm]
        if nm in fr.ns:
            return fr.ns[nm]
        b = fr.ns.get('__builtins__')
        if isinstance(b, dict) and nm in b:
            return b[nm]
        import builtins
        if hasattr(builtins, nm):
            return getattr(builtins, nm)
        if nm in self.spec_env:
            return self.spec_env[nm]
        if fr.spec and self.spec_alias.get(nm) in fr.env:
            return fr.env[self.spec_alias[nm]]      # a local that a loop annotation names was renamed in the code (see loop_spec)
        if fr.spec and fr.fi is not None and self.renamed(fr.fi).get(nm) in fr.env:
            return fr.env[self.renamed(fr.fi)[nm]]
        raise Raised(self.mk_exc('NameError')) if not fr.spec else Unsupported('unknown name in spec: ' + nm)

    def e_JoinedStr(self, node, fr):
        return Opaque('fstring')

    def e_Tuple(self, node, fr):
        return tuple(self.eval(e, fr) for e in node.elts)

    def e_List(self, node, fr):
        return [self.eval(e, fr) for e in node.elts]

    def e_Set(self, node, fr):
        return set(self.eval(e, fr) for e in node.elts)

    def e_Dict(self, node, fr):
        d = {}
        for k, v in zip(node.keys, node.values):
            d[self.eval(k, fr)] = self.eval(v, fr)
        return d

    def e_UnaryOp(self, node, fr):
        v = self.eval(node.operand, fr)
        if isinstance(node.op, ast.Not):
            if is_symbolic(v):
                return ops.lnot(v)
            if isinstance(v, (Obj, Opaque)):
                return False
            return not v
        if isinstance(node.op, ast.USub):
            return ops.neg(v)
        if isinstance(node.op, ast.UAdd):
            return v
        if isinstance(node.op, ast.Invert):
            return ops.lnot(v)
        raise Unsupported('unary op')

    BINOPS = {ast.Add: '+', ast.Sub: '-', ast.Mult: '*', ast.Div: '/', ast.FloorDiv: '//', ast.Mod: '%', ast.Pow: '**'}

    def e_BinOp(self, node, fr):
        a = self.eval(node.left, fr)
        b = self.eval(node.right, fr)
        if isinstance(node.op, ast.BitAnd):
            return ops.land(a, b)
        if isinstance(node.op, ast.BitOr):
            return ops.lor(a, b)
        op = self.BINOPS.get(type(node.op))
        if op is None:
            raise Unsupported('binary operator %s' % type(node.op).__name__)
        return ops.binop(op, a, b, spec=fr.spec)

    def e_BoolOp(self, node, fr):
        is_and = isinstance(node.op, ast.And)
        if fr.spec:
            acc = None
            for v in node.values:
                if acc is not None and not is_symbolic(acc) and not z3.is_expr(acc):
                    if is_and and not acc:
                        return acc      # concrete short-circuit
                    if not is_and and acc:
                        return acc
                x = self.eval(v, fr)
                acc = x if acc is None else (ops.land(acc, x) if is_and else ops.lor(acc, x))
            return acc
        # short-circuit with path splitting
        last = None
        for i, v in enumerate(node.values):
            last = self.eval(v, fr)
            if i == len(node.values) - 1:
                return last
            t = self.branch(last)
            if is_and and not t:
                return last if not is_symbolic(last) else False
            if not is_and and t:
                return last if not is_symbolic(last) else True
        return last

    CMP = {ast.Eq: '==', ast.NotEq: '!=', ast.Lt: '<', ast.LtE: '<=', ast.Gt: '>', ast.GtE: '>='}

    def e_Compare(self, node, fr):
        left = self.eval(node.left, fr)
        res = None
        for op, rn in zip(node.ops, node.comparators):
            right = self.eval(rn, fr)
            if isinstance(op, ast.In):
                r = ops.contains(right, left)
            elif isinstance(op, ast.NotIn):
                r = ops.lnot(ops.contains(right, left))
            elif isinstance(op, ast.Is):
                r = self.is_same(left, right)
            elif isinstance(op, ast.IsNot):
                r = ops.lnot(self.is_same(left, right))
            else:
                r = ops.compare(self.CMP[type(op)], left, right)
            res = r if res is None else ops.land(res, r)
            left = right
        return res

    def is_same(self, a, b):
        if isinstance(a, Choice) and b is None:
            return ops.mk(z3.Or([c for c, v in a.alts if v is None] or [z3.BoolVal(False)]), 'bool')
        if isinstance(b, Choice) and a is None:
            return self.is_same(b, a)
        if a is None or b is None:
            return a is b
        return a is b

    def e_IfExp(self, node, fr):
        c = self.eval(node.test, fr)
        if fr.spec and is_symbolic(c):
            return ops.ite(c, self.eval(node.body, fr), self.eval(node.orelse, fr))
        if self.branch(c):
            return self.eval(node.body, fr)
        return self.eval(node.orelse, fr)

    def e_Lambda(self, node, fr):
        params = [a.arg for a in node.args.args]

        def closure(*vals):
            env = dict(fr.env)
            for p, v in zip(params, vals):
                env[p] = v
            f2 = Frame(fr.fi, env, spec=fr.spec, ns=fr.ns)
            return self.eval(node.body, f2)
        return closure

    def e_Attribute(self, node, fr):
        base = self.eval(node.value, fr)
        return self.getattr(base, self.mangle(node.attr, fr), fr)

    def mangle(self, attr, fr):
        if attr.startswith('__') and not attr.endswith('__') and fr.cls:
            return '_%s%s' % (fr.cls.lstrip('_'), attr)
        return attr

    def getattr(self, base, attr, fr=None):
        if isinstance(base, Obj):
            if attr in base.fields:
                return base.fields[attr]
            fi = self.sb.class_method(base.cls, attr)
            if fi is not None:
                return BoundSpecial(base, attr)
            if hasattr(base.cls, attr):
                return getattr(base.cls, attr)
            raise Raised(self.mk_exc('AttributeError'))
        if isinstance(base, Choice):
            return ops.map_choice(base, lambda b: self.getattr(b, attr, fr))
        if attr == '__class__' and not isinstance(base, (Obj, Opaque, ExcVal)) and (is_symbolic(base) or isinstance(base, (str, list, dict, tuple, int, Fraction)) or base is None):
            from .models import pyclass_of
            return pyclass_of(base)
        if isinstance(base, (Sym, SChar, SSeq, SSet, str, list, dict, set, tuple, frozenset, RangeVal)):
            if isinstance(base, SSeq) and attr == 'size':
                return ops.length(base)
            return BoundSpecial(base, attr)
        if isinstance(base, ExcVal):
            return Opaque('exc.' + attr)
        if isinstance(base, Opaque):
            return Opaque(base.what + '.' + attr)
        if base is None or isinstance(base, (int, Fraction)):
            if base is None:
                raise Raised(self.mk_exc('AttributeError'))
            return BoundSpecial(base, attr)
        # native object / module / class
        try:
            v = getattr(base, attr)
        except AttributeError:
            raise Raised(self.mk_exc('AttributeError'))
        if callable(v) and hasattr(v, '__self__') and not isinstance(v.__self__, type(math)) and \
                self.sb.info_of(v) is not None:
            return BoundSpecial(base, attr)
        return v

    def e_Subscript(self, node, fr):
        base = self.eval(node.value, fr)
        sl = node.slice
        if isinstance(sl, ast.Slice):
            lo = self.eval(sl.lower, fr) if sl.lower is not None else None
            hi = self.eval(sl.upper, fr) if sl.upper is not None else None
            if sl.step is not None:
                raise Unsupported('slice step')
            return self.slice(base, lo, hi)
        if isinstance(sl, ast.Tuple):
            # numpy 2-D index a[0, :]
            idx = []
            for e in sl.elts:
                if isinstance(e, ast.Slice) and e.lower is None and e.upper is None and e.step is None:
                    idx.append(slice(None))
                else:
                    idx.append(self.eval(e, fr))
            return self.index(base, tuple(idx))
        idx = self.eval(sl, fr)
        return self.index(base, idx)

    def slice(self, base, lo, hi):
        if isinstance(base, Choice):
            return ops.map_choice(base, lambda b: self.slice(b, lo, hi))
        if isinstance(base, (list, tuple, str)) and not is_symbolic(lo) and not is_symbolic(hi):
            return base[lo:hi]
        if isinstance(base, list) and any(ops.elem_kind_of_value(x) is None for x in base):
            raise Unsupported('symbolic slice of heterogeneous list')
        ss = ops.to_sseq(base)
        # slice proved in range (0 <= lo <= hi <= n): no clamping needed
        l = ops.z3int(lo) if lo is not None else z3.IntVal(0)
        h = ops.z3int(hi) if hi is not None else ss.n
        inr = z3.And(l >= 0, l <= h, h <= ss.n)
        if not self.in_spec and not self.feasible(z3.Not(inr)):
            return SSeq(ss.arr, z3.simplify(ss.off + l), z3.simplify(h - l), ss.kind, ss.ek)
        if not self.in_spec and self.pc and any(_has_q(f) for f in self.pc[-12:]) and self.provable(inr, 5000):
            # the light check drops quantified facts (min/max of a slice, filters): ask the full pipeline once before clamping
            return SSeq(ss.arr, z3.simplify(ss.off + l), z3.simplify(h - l), ss.kind, ss.ek)
        return ops.slice_seq(base, lo, hi)

    def index(self, base, idx):
        if isinstance(base, SDict):
            k = ops.z3int(idx)
            ops._raise_if(z3.Not(z3.Select(base.dom, k)), 'KeyError')
            return wrap_elem(z3.Select(base.vals, k), base.ek)
        if isinstance(base, Choice):
            return ops.map_choice(base, lambda b: self.index(b, idx))
        if isinstance(base, dict):
            return self.dict_get(base, idx)
        if self.in_spec and isinstance(base, SSeq) and not isinstance(idx, tuple):
            return base.at(ops.z3int(idx))      # specs are total: plain array read, no index normalisation
        if self.in_spec and isinstance(base, str) and is_symbolic(idx):
            return ops.to_sseq(base).at(ops.z3int(idx))
        if isinstance(base, (SSeq, SChar, str, list, tuple)):
            if isinstance(idx, tuple):
                # 2-D: base is a tuple/list of rows
                r, c = idx
                row = self.index(base, r)
                if isinstance(c, slice):
                    return row
                return self.index(row, c)
            return ops.index_seq(base, idx)
        if isinstance(base, Opaque):
            return Opaque(base.what + '[]')
        if hasattr(base, '__getitem__') and not is_symbolic(idx):
            try:
                return base[idx]
            except (KeyError, IndexError) as e:
                raise Raised(self.mk_exc(type(e).__name__))
        raise Unsupported('subscript of %r' % (base,))

    def dict_get(self, d, key):
        if isinstance(key, Choice):
            return ops.map_choice(key, lambda k: self.dict_get(d, k))
        if not is_symbolic(key):
            try:
                return d[key]
            except KeyError:
                raise Raised(self.mk_exc('KeyError'))
            except TypeError:
                raise Unsupported('unhashable key')
        alts = []
        conds = []
        for k, v in d.items():
            c = ops.equal(key, k)
            if c is False:
                continue
            cz = ops.z3bool(c) if not isinstance(c, bool) else z3.BoolVal(c)
            alts.append((cz, v))
            conds.append(cz)
        miss = z3.Not(z3.Or(conds)) if conds else z3.BoolVal(True)
        ops._raise_if(miss, 'KeyError')
        if not alts:
            raise Raised(self.mk_exc('KeyError'))
        return ops.map_choice(Choice(alts), lambda x: x)

    def e_ListComp(self, node, fr):
        if len(node.generators) != 1:
            raise Unsupported('nested comprehension')
        g = node.generators[0]
        it = self.eval(g.iter, fr)
        items = self.concrete_items(it)
        if items is not None:
            out = []
            for x in items:
                env = dict(fr.env)
                f2 = Frame(fr.fi, env, spec=fr.spec, ns=fr.ns)
                self.assign(g.target, x, f2)
                ok = True
                for cond in g.ifs:
                    if not self.branch(self.eval(cond, f2)):
                        ok = False
                        break
                if ok:
                    out.append(self.eval(node.elt, f2))
            return out
        return self.symbolic_comprehension(node, g, it, fr)

    def e_DictComp(self, node, fr):
        """{k: v for x in <concrete iterable>}: built item by item (symbolic iterables are outside the subset)"""
        if len(node.generators) != 1:
            raise Unsupported('nested comprehension')
        g = node.generators[0]
        items = self.concrete_items(self.eval(g.iter, fr))
        if items is None:
            raise Unsupported('dict comprehension over a symbolic iterable')
        out = {}
        for x in items:
            f2 = Frame(fr.fi, dict(fr.env), spec=fr.spec, ns=fr.ns)
            self.assign(g.target, x, f2)
            if all(self.branch(self.eval(c, f2)) for c in g.ifs):
                k = self.eval(node.key, f2)
                if is_symbolic(k):
                    raise Unsupported('dict comprehension with a symbolic key')
                out[k] = self.eval(node.value, f2)
        return out

    def e_GeneratorExp(self, node, fr):
        """a generator expression handed straight to any/all/sum/min/max/sorted/join/list/set/tuple: evaluated like the list
        comprehension (the consumer sees the same items in the same order). Laziness is NOT modelled: if producing an item could
        raise, a short-circuiting consumer might never have asked for it, so that case leaves the subset instead of guessing"""
        try:
            return self.e_ListComp(node, fr)
        except Raised:
            raise Unsupported('exception while producing the items of a generator expression (lazy evaluation is not modelled)')

    def symbolic_comprehension(self, node, g, it, fr):
        """[f(x) for x in s] -> map ; [x for x in s if P(x)] -> filter (fresh sequence + axioms)"""
        enum = isinstance(it, EnumVal)
        base = it.it if enum else it
        if isinstance(base, RangeVal):
            raise Unsupported('comprehension over symbolic range')
        s = ops.to_sseq(base)
        j = z3.Int('j!m%d' % self.in_spec_depth())
        elem = s.at(j)

        def in_env():
            env = dict(fr.env)
            f2 = Frame(fr.fi, env, spec=True, ns=fr.ns)
            self.assign(g.target, (Sym(j + (it.start if enum else 0), 'int'), elem) if enum else elem, f2)
            return f2
        self.in_spec += 1
        try:
            f2 = in_env()
            if not g.ifs:
                v = self.eval(node.elt, f2)
                ek = ops.elem_kind_of_value(v)
                if ek is None:
                    raise Unsupported('map comprehension with non-scalar element')
                body = ops.char_code(v) if ek == 'char' else (ops.z3real(v) if ek == 'real' else ops.z3int(v))
                return SSeq(LAM(j, body), 0, s.n, 'list', 'int' if ek == 'bool' else ek)
            # filter: only identity element supported
            v = self.eval(node.elt, f2)
            pred = None
            for c in g.ifs:
                cv = self.eval(c, f2)
                pred = cv if pred is None else ops.land(pred, cv)
            predz = ops.z3bool(pred) if not isinstance(pred, bool) else z3.BoolVal(pred)
        finally:
            self.in_spec -= 1
        ek = ops.elem_kind_of_value(v)
        if ek is None:
            raise Unsupported('filter comprehension element')
        vz = ops.char_code(v) if ek == 'char' else (ops.z3real(v) if ek == 'real' else ops.z3int(v))
        if not is_symbolic(v) and ek in ('int', 'real'):
            # [c for x in s if P(x)] with a constant c: the constant sequence of length count(P)
            from .speclib import SumI
            cntarr = LAM(j, z3.If(predz, z3.IntVal(1), z3.IntVal(0)))
            n = SumI(cntarr, z3.IntVal(0), s.n)         # the predicate reads s through its own offset
            self.assume(n >= 0)     # a count (lemma cnt_nonneg, proved by induction in contracts/lemmas.py)
            return SSeq(z3.K(z3.IntSort(), vz), 0, n, 'list', ek)
        return self.filter_seq(s, j, predz, vz, ek)

    def in_spec_depth(self):
        return self.in_spec

    def filter_seq(self, s, j, predz, vz, ek):
        """fresh sequence r = [v(j) for j in 0..n if pred(j)], axiomatised through a position map:
           pos: strictly increasing map [0,len r) -> indices satisfying pred, onto; len r = count(pred)"""
        from .speclib import SumI
        r = self.fresh_seq('filt', 'list', 'int' if ek == 'bool' else ek)
        cntarr = LAM(j, z3.If(predz, z3.IntVal(1), z3.IntVal(0)))
        self.assume(r.n == SumI(cntarr, z3.IntVal(0), s.n))
        # element characterisation: r[SumI(cnt,0,j)] == v(j) whenever pred(j)
        jj = z3.Int('j!f')
        body_pred = z3.substitute(predz, (j, jj))
        body_v = z3.substitute(vz, (j, jj))
        ax = z3.ForAll([jj], z3.Implies(z3.And(jj >= 0, jj < s.n, body_pred),
                                        z3.Select(r.arr, SumI(cntarr, z3.IntVal(0), jj)) == body_v))
        self.pc.append(ax)
        # onto: every element of the filtered list comes from a position that satisfies the predicate
        kk = z3.Int('k!f')
        onto = z3.ForAll([kk], z3.Implies(z3.And(kk >= 0, kk < r.n),
                                          z3.Exists([jj], z3.And(jj >= 0, jj < s.n, body_pred, z3.Select(r.arr, kk) == body_v))))
        self.pc.append(onto)
        self.trusted_used.add('[x for x in s if P(x)]: filter (length = count of P, order kept, every element comes from s)')
        self.filters.append((r, s, cntarr))
        return r

    filters = []

    def e_Call(self, node, fr):
        if self.deadline and time.time() > self.deadline:
            raise Unsupported('VC generation exceeded its time budget (path explosion after a restructuring?)')
        # attribute call: method dispatch with knowledge of the receiver's location
        if isinstance(node.func, ast.Attribute):
            base = self.eval(node.func.value, fr)
            attr = self.mangle(node.func.attr, fr)
            args, kwargs = self.eval_args(node, fr)
            return self.call_method(base, attr, args, kwargs, fr, node.func.value, node)
        if fr.spec and isinstance(node.func, ast.Name) and callable(self.spec_env.get(node.func.id)) and \
                not callable(fr.env.get(node.func.id, self.spec_env[node.func.id])):
            fv = self.spec_env[node.func.id]        # a local of the program that happens to share the name of a spec function is not the callee
        else:
            fv = self.eval(node.func, fr)
        fi0 = self.sb.info_of(fv) if callable(fv) and not isinstance(fv, (BoundSpecial, type)) else None
        if fi0 is not None and fi0.key in DROPPED_CALLS:
            self.dropped.add(fi0.qualname + '()')       # message printers: no-ops with empty frame
            # their arguments ARE evaluated (an exception raised while building the message is an exception of the function);
            # what the executor cannot model in a message (number formatting ...) is skipped
            try:
                self.eval_args(node, fr)
            except Unsupported:
                pass
            return None
        args, kwargs = self.eval_args(node, fr)
        return self.call_value(fv, args, kwargs, fr, node)

    def eval_args(self, node, fr):
        args = []
        for a in node.args:
            if isinstance(a, ast.Starred):
                v = self.eval(a.value, fr)
                args.extend(list(v))
            else:
                args.append(self.eval(a, fr))
        kwargs = {}
        for k in node.keywords:
            if k.arg is None:
                d = self.eval(k.value, fr)
                if not isinstance(d, dict) or any(not isinstance(x, str) for x in d):
                    raise Unsupported('**kwargs of a non-dictionary')
                kwargs.update(d)
                continue
            kwargs[k.arg] = self.eval(k.value, fr)
        return args, kwargs

    # ------------------------------------------------------------------ calls
    def call_value(self, fv, args, kwargs, fr, node=None):
        if isinstance(fv, BoundSpecial):
            return self.call_method(fv.base, fv.name, args, kwargs, fr, None, node)
        from .sandbox import OpaqueModule
        if isinstance(fv, OpaqueModule):
            # call into an unavailable third-party module (matplotlib): nothing is modelled, the call and its
            # arguments are recorded so that contracts can state what is HANDED to the library
            self.effects.append((fv.__name__, tuple(args), dict(kwargs)))
            self.trusted_used.add('third-party call recorded, not modelled: ' + fv.__name__.split('.')[0])
            return OpaqueModule(fv.__name__ + '()')
        if isinstance(fv, Opaque):
            self.dropped.add('call of ' + fv.what)
            return Opaque(fv.what + '()')
        if hasattr(fv, 'fi') and type(fv).__name__ == 'LocalFn':
            return self.inline(fv.fi, list(args), kwargs)       # nested helper function: inlined
        model = self.lookup_model(fv)
        if model is not None:
            return model(self, fr, *args, **kwargs)
        if fr.spec and callable(fv) and not isinstance(fv, type) and self.sb.info_of(fv) is None:
            return fv(*args, **kwargs)      # spec-library function (dual mode)
        if isinstance(fv, type) and issubclass(fv, BaseException):
            return ExcVal(fv, tuple(args))
        fi = self.sb.info_of(fv) if callable(fv) else None
        if isinstance(fv, type):
            init = self.sb.class_method(fv, '__init__')
            if init is not None:
                obj = Obj(fv, self.fresh_name(fv.__name__))
                self.invoke(init, [obj] + list(args), kwargs, fr, node)
                return obj
            if not any(self.has_sym(a) for a in args):
                return fv(*args, **kwargs)
            raise Unsupported('constructor of %s with symbolic args' % fv.__name__)
        if fi is not None:
            sym = any(self.has_sym(a) for a in list(args) + list(kwargs.values()))
            if not sym and fi.key not in self.contracts and fi.key not in self.loops and self.native_ok(fi, list(args) + list(kwargs.values())):
                try:
                    return fv(*args, **kwargs)      # closed sub-computation: run natively
                except Exception as e:               # noqa
                    raise Raised(ExcVal(type(e), ()))
            return self.invoke(fi, list(args), kwargs, fr, node)
        if callable(fv):
            if not any(self.has_sym(a) for a in list(args) + list(kwargs.values())):
                try:
                    return fv(*args, **kwargs)
                except Exception as e:   # noqa
                    raise Raised(ExcVal(type(e), ()))
            raise Unsupported('call of unmodelled %r with symbolic arguments' % (fv,))
        raise Raised(self.mk_exc('TypeError'))

    def has_sym(self, v, depth=0):
        if is_symbolic(v) or isinstance(v, (Obj, Opaque, RangeVal)):
            return True
        if depth > 3:
            return False
        if isinstance(v, (list, tuple, set, frozenset)):
            return any(self.has_sym(x, depth + 1) for x in v)
        if isinstance(v, dict):
            return any(self.has_sym(x, depth + 1) for x in v.values()) or any(self.has_sym(x, depth + 1) for x in v.keys())
        return False

    def lookup_model(self, fv):
        try:
            return self.models.get(fv)
        except TypeError:
            return None

    def call_method(self, base, attr, args, kwargs, fr, base_node, node):
        if isinstance(base, Choice):
            if all(isinstance(v, (str, int, Fraction)) for _, v in base.alts) and not any(is_symbolic(a) for a in args):
                from . import models as M
                return ops.map_choice(base, lambda v: M.value_method(self, fr, v, attr, args, kwargs)[0])
            raise Unsupported('method call on a guarded union')
        if isinstance(base, Obj):
            fi = self.sb.class_method(base.cls, attr)
            if fi is None:
                v = self.getattr(base, attr, fr)
                return self.call_value(v, args, kwargs, fr, node)
            return self.invoke(fi, [base] + list(args), kwargs, fr, node)
        if isinstance(base, Opaque):
            self.dropped.add('call of %s.%s' % (base.what, attr))
            return Opaque('%s.%s()' % (base.what, attr))
        from . import models as M
        if attr in MUTATORS and base_node is not None and isinstance(base, (list, dict, set)):
            self.check_not_global(base_node, fr)
        if isinstance(base, RandVal) and attr == 'shuffle':
            arg_node = node.args[0] if node is not None and node.args else None
            if arg_node is None:
                raise Unsupported('shuffle of a non-variable')
            self.assign(arg_node, M.shuffled(self, args[0]), fr)
            return None
        if isinstance(base, RandVal):
            return M.rand_method(self, fr, base, attr, args, kwargs)
        if isinstance(base, M.FileVal):
            return M.value_method(self, fr, base, attr, args, kwargs)[0]
        if isinstance(base, (Sym, SChar, SSeq, SSet, ASet, str, list, dict, set, tuple, frozenset, int, Fraction, RangeVal)):
            res, newbase, mutated = M.value_method(self, fr, base, attr, args, kwargs)
            if mutated:
                if base_node is None:
                    raise Unsupported('mutation of a value without a location')
                self.assign(base_node, newbase, fr)
            return res
        # native module function or native instance method
        from .sandbox import OpaqueModule
        if isinstance(base, OpaqueModule):
            return self.call_value(getattr(base, attr), args, kwargs, fr, node)
        try:
            v = getattr(base, attr)
        except AttributeError:
            raise Raised(self.mk_exc('AttributeError'))
        model = self.lookup_model(v)
        if model is not None:
            return model(self, fr, *args, **kwargs)
        fi = self.sb.info_of(v) if callable(v) else None
        if fi is not None and hasattr(v, '__self__') and not isinstance(v.__self__, type):
            sym = any(self.has_sym(a) for a in list(args) + list(kwargs.values()))
            if not sym and fi.key not in self.contracts and self.native_ok(fi, [v.__self__] + list(args) + list(kwargs.values())):
                try:
                    return v(*args, **kwargs)
                except Exception as e:   # noqa
                    raise Raised(ExcVal(type(e), ()))
            return self.invoke(fi, [v.__self__] + list(args), kwargs, fr, node)
        return self.call_value(v, args, kwargs, fr, node)

    def native_ok(self, fi, values):
        """a repository function may be run natively (instead of being interpreted) only as a closed computation on plain data:
        no opaque library object among its arguments and no unavailable third-party module in its module's namespace - otherwise
        the calls it hands to that library would go unrecorded"""
        from .sandbox import OpaqueModule

        def plain(x, d=0):
            if isinstance(x, (Opaque, OpaqueModule, Obj)):
                return False
            if isinstance(x, (list, tuple, set, frozenset)) and d < 3:
                return all(plain(y, d + 1) for y in x)
            if isinstance(x, dict) and d < 3:
                return all(plain(y, d + 1) for y in x.values())
            return True
        if not all(plain(v) for v in values):
            return False
        key = fi.module.name
        if key not in self._mod_opaque:
            self._mod_opaque[key] = any(isinstance(v, OpaqueModule) for v in (fi.module.ns or {}).values())
        return not self._mod_opaque[key]

    _mod_opaque = {}

    # ---- invoking an interpreted function: contract or inline
    def invoke(self, fi, args, kwargs, fr, node=None):
        c = self.contracts.get(fi.key)
        if c is not None and not (self.depth == 0) and not c.get('inline'):
            from .contract import apply_contract
            return apply_contract(self, fi, c, args, kwargs, fr, node)
        return self.inline(fi, args, kwargs)

    def bind_params(self, fi, args, kwargs):
        a = fi.node.args
        names = [x.arg for x in a.args]
        env = {}
        if len(args) > len(names):
            if a.vararg is None:
                raise Raised(self.mk_exc('TypeError'))
        for n, v in zip(names, args):
            env[n] = v
        if a.vararg is not None:
            env[a.vararg.arg] = tuple(args[len(names):])
        defaults = a.defaults
        dstart = len(names) - len(defaults)
        for k, v in kwargs.items():
            if k in env:
                raise Raised(self.mk_exc('TypeError'))
            if k not in names:
                raise Raised(self.mk_exc('TypeError'))
            env[k] = v
        for i, n in enumerate(names):
            if n not in env:
                if i >= dstart:
                    dfr = Frame(fi, {}, spec=False)
                    env[n] = self.eval(defaults[i - dstart], dfr)   # fresh copy of the default object
                else:
                    raise Raised(self.mk_exc('TypeError'))
        return env

    def inline(self, fi, args, kwargs):
        if self.depth > 14:
            raise Unsupported('inline depth')
        env = self.bind_params(fi, args, kwargs)
        fr = Frame(fi, env)
        self.depth += 1
        self.frames.append(fr)
        if self.depth > 1:
            self.inlined.add(fi.key)
        try:
            try:
                self.exec_block(fi.node.body, fr)
            except Returned as r:
                return r.value
            return None
        finally:
            if self.depth == 1:
                self.last_top_env = fr.env      # locals of the function under contract at its exit (ghost access: local('x'))
            self.depth -= 1
            self.frames.pop()

    # ------------------------------------------------------------------ statements
    def exec_block(self, stmts, fr):
        for s in stmts:
            self.exec_stmt(s, fr)

    def exec_stmt(self, s, fr):
        m = getattr(self, 's_' + type(s).__name__, None)
        if m is None:
            raise Unsupported('statement %s (line %d)' % (type(s).__name__, s.lineno))
        self.cur_line = s.lineno
        if self.deadline and time.time() > self.deadline:
            raise Unsupported('VC generation exceeded its time budget (path explosion after a restructuring?)')
        return m(s, fr)

    cur_line = 0
    deadline = 0

    def s_Expr(self, s, fr):
        if isinstance(s.value, ast.Constant):
            return
        self.eval(s.value, fr)

    def s_Pass(self, s, fr):
        pass

    def s_Import(self, s, fr):
        pass

    def s_ImportFrom(self, s, fr):
        pass

    def s_FunctionDef(self, s, fr):
        # local helper (print_progress): callable closure, inlined on call
        from .sandbox import FuncInfo
        fi = FuncInfo(fr.fi.module, fr.fi.qualname + '.<locals>.' + s.name, s, fr.cls, fr.fi.module.source)
        interp = self

        class LocalFn:
            def __init__(self):
                self.fi = fi
        lf = LocalFn()
        self.models_local[id(lf)] = lf
        fr.env[s.name] = lf

    models_local = {}

    def s_Assign(self, s, fr):
        v = self.eval(s.value, fr)
        for t in s.targets:
            self.assign(t, v, fr)

    def s_AnnAssign(self, s, fr):
        if s.value is not None:
            self.assign(s.target, self.eval(s.value, fr), fr)

    def s_AugAssign(self, s, fr):
        cur = self.eval(self.as_load(s.target), fr)
        v = self.eval(s.value, fr)
        if isinstance(s.op, (ast.BitAnd, ast.BitOr)):
            r = ops.land(cur, v) if isinstance(s.op, ast.BitAnd) else ops.lor(cur, v)
        else:
            op = self.BINOPS[type(s.op)]
            if op == '+' and isinstance(cur, list) and isinstance(v, list):
                cur.extend(v)
                return
            r = ops.binop(op, cur, v)
        self.assign(s.target, r, fr)

    def as_load(self, t):
        t2 = copy.copy(t)
        t2.ctx = ast.Load()
        return t2

    def assign(self, t, v, fr):
        if isinstance(t, ast.Name):
            fr.env[t.id] = v
            return
        if isinstance(t, (ast.Tuple, ast.List)):
            from .sandbox import OpaqueModule
            if isinstance(v, (Opaque, OpaqueModule)):
                for tt in t.elts:
                    self.assign(tt, v, fr)
                return
            if isinstance(v, SSeq):
                raise Unsupported('unpacking a symbolic sequence')
            vals = list(v)
            if len(vals) != len(t.elts):
                raise Raised(self.mk_exc('ValueError'))
            for tt, vv in zip(t.elts, vals):
                self.assign(tt, vv, fr)
            return
        if isinstance(t, ast.Attribute):
            base = self.eval(t.value, fr)
            attr = self.mangle(t.attr, fr)
            if isinstance(base, Obj):
                base.fields[attr] = v
                return
            raise Unsupported('attribute assignment on %r' % (base,))
        if isinstance(t, ast.Subscript):
            self.check_not_global(t.value, fr)
            base = self.eval(t.value, fr)
            if isinstance(t.slice, ast.Slice):
                # x[a:b] = y on a list, for the case where a <= b are in range and y has exactly b - a elements (the list keeps its
                # length); anything else (clamping, growing / shrinking) is outside the subset
                if t.slice.step is not None or not isinstance(base, (SSeq, list)) or (isinstance(base, SSeq) and base.kind not in ('list',)):
                    raise Unsupported('slice assignment')
                old_ = ops.to_sseq(base)
                rhs = ops.to_sseq(v)
                a = ops.z3int(self.eval(t.slice.lower, fr)) if t.slice.lower is not None else z3.IntVal(0)
                b = ops.z3int(self.eval(t.slice.upper, fr)) if t.slice.upper is not None else old_.n
                ok = z3.And(0 <= a, a <= b, b <= old_.n, rhs.n == b - a)
                if self.feasible(z3.Not(ok)) and not self.provable(ok):
                    raise Unsupported('slice assignment whose bounds / length are not provably in range')
                if old_.ek != rhs.ek:
                    raise Unsupported('slice assignment with a different element kind')
                j = z3.Int('j!sa')
                arr = LAM(j, z3.If(z3.And(a <= j, j < b), z3.Select(rhs.arr, rhs.off + j - a), z3.Select(old_.arr, old_.off + j)))
                self.assign(t.value, SSeq(arr, 0, old_.n, 'list', old_.ek), fr)
                return
            idx = self.eval(t.slice, fr)
            if isinstance(base, SDict) or (isinstance(base, dict) and len(base) == 0 and is_symbolic(idx) and ops.kind_of(idx) == 'int'):
                ek = ops.elem_kind_of_value(v)
                if ek is None:
                    raise Unsupported('symbolic-key dictionary with non-scalar values')
                if not isinstance(base, SDict):
                    from .values import arr_sort
                    base = SDict(z3.K(I, z3.BoolVal(False)), z3.K(I, ops._zero(ek)), ek)
                k = ops.z3int(idx)
                val = ops.char_code(v) if ek == 'char' else (ops.z3real(v) if ek == 'real' else ops.z3int(v))
                self.assign(t.value, SDict(z3.Store(base.dom, k, z3.BoolVal(True)), z3.Store(base.vals, k, val), base.ek), fr)
                return
            if isinstance(base, dict):
                if is_symbolic(idx):
                    # update of a concrete-key dict at a symbolic key: every entry becomes an ite
                    miss = []
                    for k in list(base.keys()):
                        c = ops.equal(idx, k)
                        if c is False:
                            continue
                        base[k] = ops.ite(c, v, base[k])
                        miss.append(ops.z3bool(c) if not isinstance(c, bool) else z3.BoolVal(c))
                    # a symbolic key that matches no existing key would create a new entry
                    nm = z3.Not(z3.Or(miss)) if miss else z3.BoolVal(True)
                    if self.feasible(nm):
                        raise Unsupported('dict store with symbolic key possibly absent')
                    return
                base[idx] = v
                return
            if isinstance(base, list) and not is_symbolic(idx):
                n = len(base)
                if idx >= n or idx < -n:
                    raise Raised(self.mk_exc('IndexError'))
                base[idx] = v
                return
            if isinstance(base, (SSeq, list)):
                if isinstance(base, SSeq) and base.kind in ('str', 'tuple'):
                    raise Raised(self.mk_exc('TypeError'))
                nb = ops.store_seq(base, idx, v)
                self.assign(t.value, nb, fr)
                return
            raise Unsupported('subscript assignment on %r' % (base,))
        raise Unsupported('assignment target %s' % type(t).__name__)

    def check_not_global(self, node, fr):
        """module-level state is assumed constant: a write to it (history-dependent behaviour) leaves the subset"""
        root = node
        while isinstance(root, (ast.Subscript, ast.Attribute)):
            root = root.value
        if isinstance(root, ast.Name) and root.id not in fr.env and root.id in fr.ns and not fr.spec:
            raise Unsupported('write to module-level state `%s` (line %s): module globals are assumed constant' % (root.id, getattr(node, 'lineno', '?')))

    def s_Return(self, s, fr):
        raise Returned(self.eval(s.value, fr) if s.value is not None else None)

    def s_Raise(self, s, fr):
        if s.exc is None:
            raise Unsupported('bare raise')
        self.in_msg += 1
        try:
            v = self.eval_exc(s.exc, fr)
        finally:
            self.in_msg -= 1
        raise Raised(v)

    in_msg = 0

    def eval_exc(self, node, fr):
        # the message text is ignored: evaluate only the class
        if isinstance(node, ast.Call):
            cls = self.eval(node.func, fr)
            if isinstance(cls, type) and issubclass(cls, BaseException):
                return ExcVal(cls, ())
        v = self.eval(node, fr)
        if isinstance(v, type) and issubclass(v, BaseException):
            return ExcVal(v, ())
        if isinstance(v, ExcVal):
            return v
        raise Unsupported('raise of non-exception')

    def s_Assert(self, s, fr):
        c = self.eval(s.test, fr)
        t = self.branch(c)
        if not t:
            raise Raised(self.mk_exc('AssertionError'))

    def s_If(self, s, fr):
        c = self.eval(s.test, fr)
        if self.branch(c):
            self.exec_block(s.body, fr)
        else:
            self.exec_block(s.orelse, fr)

    def s_Break(self, s, fr):
        raise BreakEx()

    def s_Continue(self, s, fr):
        raise ContinueEx()

    def s_Delete(self, s, fr):
        for t in s.targets:
            if isinstance(t, ast.Name):
                fr.env.pop(t.id, None)
            else:
                raise Unsupported('del of non-name')

    def s_Global(self, s, fr):
        raise Unsupported('global statement')

    def s_Try(self, s, fr):
        if s.finalbody:
            raise Unsupported('try/finally')
        try:
            self.exec_block(s.body, fr)
        except Raised as r:
            for h in s.handlers:
                if h.type is None:
                    match = True
                else:
                    hc = self.eval(h.type, fr)
                    classes = hc if isinstance(hc, tuple) else (hc,)
                    match = r.exc.cls is not None and any(isinstance(c, type) and issubclass(r.exc.cls, c) for c in classes)
                if match:
                    if h.name:
                        fr.env[h.name] = r.exc
                    self.exec_block(h.body, fr)
                    return
            raise
        else:
            self.exec_block(s.orelse, fr)

    def s_With(self, s, fr):
        for item in s.items:
            v = self.eval(item.context_expr, fr)
            if item.optional_vars is not None:
                self.assign(item.optional_vars, v, fr)
        self.exec_block(s.body, fr)

    # ------------------------------------------------------------------ loops
    def loop_ordinal(self, node, fr):
        key = fr.fi.key
        table = getattr(fr.fi, '_loop_table', None)
        if table is None:
            loops = [n for n in ast.walk(fr.fi.node) if isinstance(n, (ast.For, ast.While))]
            loops.sort(key=lambda n: (n.lineno, n.col_offset))
            table = {id(n): i for i, n in enumerate(loops)}
            fr.fi._loop_table = table
        return table[id(node)]

    def enclosing_loops(self, fr, lineno):
        """ordinals of the loops of the current function that contain the given source line (outermost first)"""
        loops = [n for n in ast.walk(fr.fi.node) if isinstance(n, (ast.For, ast.While))]
        loops.sort(key=lambda n: (n.lineno, n.col_offset))
        return [i for i, n in enumerate(loops) if n.lineno <= lineno <= n.end_lineno]

    spec_alias = {}
    pinned_locals = {}      # function key -> local names (first-occurrence order) on the pinned tree, from the ledger
    _renamed = {}

    def renamed(self, fi):
        """old local name -> current local name, when the function has as many locals as on the pinned tree but some are called
        differently (positional match by first occurrence).  Like resolve_renamed this only steers which proof is attempted."""
        k = fi.key
        if k not in self._renamed:
            old, cur = self.pinned_locals.get(k), fi.local_names()
            m = {}
            if old and len(old) == len(cur) and old != cur:
                m = {o: c for o, c in zip(old, cur) if o != c and o not in cur}
                if m:
                    self.trusted_used.add('locals of %s renamed since the pinned tree: %s' % (k, ', '.join('%s->%s' % kv for kv in sorted(m.items()))))
            self._renamed[k] = m
        return self._renamed[k]

    def loop_spec(self, node, fr):
        o = self.loop_ordinal(node, fr)
        spec = (self.loops.get(fr.fi.key) or {}).get(o)
        if spec is not None and not fr.spec:
            ren = self.renamed(fr.fi)
            if ren and any(k in ren for k in (spec.get('types') or {})):
                spec = dict(spec)
                spec['types'] = {ren.get(k, k): v for k, v in spec['types'].items()}
            spec = self.resolve_renamed(node, spec, fr)
        return o, spec

    def resolve_renamed(self, node, spec, fr):
        """A loop annotation names locals of the function.  If exactly one of the names it uses no longer exists and exactly one variable
        that the loop body updates (and that exists before the loop) is not mentioned by the annotation, the missing name is taken to be
        that variable (a rename of the accumulator).  This only changes which proof is ATTEMPTED: every obligation is still checked."""
        texts = list(spec.get('invariant', [])) + list(spec.get('transition', [])) + ([spec['variant']] if spec.get('variant') else [])
        used = set()
        for t in texts:
            try:
                for n in ast.walk(self.parse_spec(t)):
                    if isinstance(n, ast.Name):
                        used.add(n.id)
            except SyntaxError:
                return spec
        used |= {k for k in (spec.get('types') or {}) if '.' not in k}
        lam_args = set()
        for t in texts:
            for n in ast.walk(self.parse_spec(t)):
                if isinstance(n, ast.Lambda):
                    lam_args |= {a.arg for a in n.args.args}
        import builtins
        ren0 = self.renamed(fr.fi)
        known = lambda nm: nm in fr.env or nm in ren0 or nm in self.spec_env or nm in fr.ns or hasattr(builtins, nm) or nm in lam_args or \
            nm in (spec.get('index'), 'self', 'result') or nm in (spec.get('ghost') or {})
        missing = [nm for nm in used if not known(nm)]
        if len(missing) != 1:
            return spec
        names, _ = self.modified_in(node.body, fr)
        tgt = set()
        if isinstance(node, ast.For):
            tgt = {n.id for n in ast.walk(node.target) if isinstance(n, ast.Name)}
        cands = [m for m in names if m in fr.env and m not in used and m not in tgt]
        if len(cands) != 1:
            return spec
        u, m = missing[0], cands[0]
        self.spec_alias[u] = m
        spec = dict(spec)
        if u in (spec.get('types') or {}):
            ty = dict(spec['types'])
            ty[m] = ty.pop(u)
            spec['types'] = ty
        self.trusted_used.add('loop annotation of %s names `%s`; the code now calls it `%s`' % (fr.fi.key, u, m))
        return spec

    def concrete_items(self, it):
        """list of items if the iterable can be unrolled, else None"""
        if isinstance(it, RangeVal):
            if it.concrete():
                return list(range(it.lo, it.hi, it.step))
            return None
        if isinstance(it, EnumVal):
            inner = self.concrete_items(it.it)
            if inner is None:
                return None
            return [(i + it.start, x) for i, x in enumerate(inner)]
        if isinstance(it, (list, tuple)):
            return list(it)
        if isinstance(it, str):
            return list(it)
        if isinstance(it, dict):
            return list(it.keys())
        if isinstance(it, (set, frozenset)):
            try:
                return sorted(it)
            except TypeError:
                return list(it)
        if isinstance(it, type({}.keys())) or isinstance(it, type({}.values())) or isinstance(it, type({}.items())):
            return list(it)
        if isinstance(it, SSeq):
            n = z3.simplify(it.n)
            if z3.is_int_value(n) and n.as_long() <= 64:
                return [it.at(i) for i in range(n.as_long())]
            return None
        if isinstance(it, SChar):
            return [it]
        if isinstance(it, range):
            return list(it)
        if isinstance(it, zip):
            return list(it)
        if hasattr(it, '__iter__') and not isinstance(it, (Obj, Opaque, Choice, SSet)):
            try:
                return list(it)
            except Exception:   # noqa
                return None
        return None

    def s_For(self, s, fr):
        if s.orelse:
            raise Unsupported('for/else')
        it = self.eval(s.iter, fr)
        o, spec = self.loop_spec(s, fr)
        items = self.concrete_items(it)
        if items is not None and (spec is None or spec.get('unroll')):
            if len(items) > 4000:
                raise Unsupported('unrolling %d iterations' % len(items))
            for x in items:
                self.assign(s.target, x, fr)
                try:
                    self.exec_block(s.body, fr)
                except BreakEx:
                    break
                except ContinueEx:
                    continue
            return
        if spec is None:
            raise Unsupported('loop %d of %s (line %d) over a symbolic iterable has no invariant' % (o, fr.fi.key, s.lineno))
        self.cut_for(s, fr, it, o, spec)

    def iter_view(self, it):
        """(lo, hi, elem(k)) view of a symbolic iterable indexed by a hidden integer k"""
        if isinstance(it, RangeVal):
            if it.step != 1:
                raise Unsupported('range step')
            lo, hi = it.lo, it.hi
            return lo, hi, (lambda k: k)
        if isinstance(it, EnumVal):
            lo, hi, el = self.iter_view(it.it)
            st = it.start
            return lo, hi, (lambda k: (ops.binop('+', ops.binop('-', k, lo), st), el(k)))
        if isinstance(it, SSet) and it.src is not None:
            # iteration over set(list): every member is visited; modelled as visiting the list's elements
            self.trusted_used.add('iteration over set(seq) modelled as iteration over seq (order/multiplicity abstracted)')
            it = it.src
        if isinstance(it, (SSeq, str, list, tuple, SChar)):
            s = ops.to_sseq(it)
            return 0, ops.mk(s.n, 'int'), (lambda k: s.at(ops.z3int(k)))
        raise Unsupported('symbolic iteration over %r' % (it,))

    def cut_for(self, s, fr, it, o, spec):
        key = fr.fi.key
        lo, hi, elem = self.iter_view(it)
        idx = spec.get('index', '_k')
        tag = '%s.loop%d' % (key, o)
        for gname, gexpr in (spec.get('ghost') or {}).items():
            fr.env[gname] = self.eval_spec(gexpr, fr)       # ghost copy of a value at loop entry
        # establish
        fr.env[idx] = lo
        self.check_invariants(spec, fr, tag, 'establish', s.lineno)
        mode = self.choose(2)
        self.havoc_loop(s, fr, o, spec)
        k = self.fresh(idx, 'int')
        loz, hiz = ops.z3int(lo), ops.z3int(hi)
        if mode == 0:
            self.assume(z3.And(k.e >= loz, k.e < hiz))
            fr.env[idx] = k
            self.assume_invariants(spec, fr)
            self.assign(s.target, elem(k), fr)
            self.assume_lemmas(spec.get('lemmas', []), fr)
            pre_env = dict(fr.env)
            try:
                self.exec_block(s.body, fr)
            except ContinueEx:
                pass
            except BreakEx:
                return      # continue after the loop with the state at the break
            self.check_promotion(s, fr, o)
            # lemma instances at the back edge may relate the new state to the state at the head of the iteration: pre("x")
            saved = self.spec_env.get('pre')
            self.spec_env['pre'] = (lambda pe, rn: (lambda name: pe[name] if name in pe else pe[rn.get(name, name)]))(pre_env, self.renamed(fr.fi) if fr.fi is not None else {})
            try:
                self.assume_lemmas(spec.get('post_lemmas', []), fr)
            finally:
                self.spec_env['pre'] = saved
            fr.env[idx] = ops.binop('+', k, 1)
            self.check_invariants(spec, fr, tag, 'preserve', s.lineno)
            raise PathEnd('loop body end')
        else:
            if not self.feasible(hiz < loz):
                self.assume(k.e == hiz)        # the range is never empty-by-inversion: the index ends at hi
            else:
                self.assume(z3.And(k.e >= loz, k.e >= hiz, z3.Or(k.e == hiz, k.e == loz)))
            fr.env[idx] = k
            self.assume_invariants(spec, fr)
            self.assume_lemmas(spec.get('exit_lemmas', []), fr)
            # the loop variable keeps its last value when at least one iteration ran
            if self.feasible(ops.z3int(hi) > ops.z3int(lo)) and isinstance(s.target, ast.Name) and \
                    spec.get('keep_target', False):
                self.assign(s.target, elem(ops.binop('-', k, 1)), fr)
            elif isinstance(s.target, ast.Name):
                fr.env.pop(s.target.id, None) if s.target.id not in spec.get('types', {}) else None

    def s_While(self, s, fr):
        if s.orelse:
            raise Unsupported('while/else')
        o, spec = self.loop_spec(s, fr)
        if spec is None:
            # try plain execution (concrete loop)
            n = 0
            while True:
                c = self.eval(s.test, fr)
                if is_symbolic(c):
                    raise Unsupported('while loop %d of %s (line %d) has a symbolic guard and no invariant' % (o, fr.fi.key, s.lineno))
                if not c:
                    return
                try:
                    self.exec_block(s.body, fr)
                except BreakEx:
                    return
                except ContinueEx:
                    pass
                n += 1
                if n > 4000:
                    raise Unsupported('concrete while loop too long')
        key = fr.fi.key
        tag = '%s.loop%d' % (key, o)
        # typed loop variables that are not assigned before the loop (first assigned in its body): the invariant may mention them under
        # a guard; they get an arbitrary value of their type for the establish check (definite assignment is NOT checked: see DESIGN 1.2)
        for nm_, ty_ in (spec.get('types') or {}).items():
            if '.' not in nm_ and nm_ not in fr.env:
                fr.env[nm_] = self.fresh_typed(nm_, ty_)
                self.trusted_used.add('definite assignment of `%s` in %s is argued, not checked' % (nm_, key))
        self.check_invariants(spec, fr, tag, 'establish', s.lineno)
        mode = self.choose(2)
        self.havoc_loop(s, fr, o, spec)
        self.assume_invariants(spec, fr)
        if mode == 0:
            c = self.eval(s.test, fr)
            self.assume(ops.z3bool(c) if is_symbolic(c) else bool(c))
            self.assume_lemmas(spec.get('lemmas', []), fr)
            var0 = self.eval_variant(spec, fr)
            pre_env = dict(fr.env)
            mark = len(self.rand_log)
            try:
                self.exec_block(s.body, fr)
            except ContinueEx:
                pass
            except BreakEx:
                return
            self.check_promotion(s, fr, o)
            self.check_invariants(spec, fr, tag, 'preserve', s.lineno)
            # draw(k): the k-th uniform random number drawn by THIS function during this iteration (callees under contract do not count)
            log = list(self.rand_log[mark:])
            self.spec_env['draw'] = lambda k: log[k] if k < len(log) else (_ for _ in ()).throw(Unsupported('draw(%d): fewer draws in this iteration' % k))
            # transition clauses: relate the state at the head of an iteration (pre('x')) to the state at its back edge
            for n, tr in enumerate(spec.get('transition', [])):
                saved = self.spec_env.get('pre')
                self.spec_env['pre'] = (lambda pe, rn: (lambda name: pe[name] if name in pe else pe[rn.get(name, name)]))(pre_env, self.renamed(fr.fi) if fr.fi is not None else {})
                try:
                    g = self.eval_spec(tr, fr)
                finally:
                    self.spec_env['pre'] = saved
                self.oblige('%s.trans%d' % (tag, n), g, 'invariant', s.lineno, note=tr)
            if var0 is not None:
                var1 = self.eval_variant(spec, fr)
                self.oblige(tag + '.variant', self.lex_less(var1, var0), 'variant', s.lineno)
            raise PathEnd('loop body end')
        else:
            c = self.eval(s.test, fr)
            self.assume(ops.z3bool(ops.lnot(c)) if is_symbolic(c) else (not c))

    def eval_variant(self, spec, fr):
        v = spec.get('variant')
        if v is None:
            return None
        val = self.eval_spec(v, fr)
        return val if isinstance(val, tuple) else (val,)

    def lex_less(self, a, b):
        """a <lex b and all components of b bounded below by 0"""
        conds = []
        for i in range(len(a)):
            pre = [ops.z3int(a[j]) == ops.z3int(b[j]) for j in range(i)]
            conds.append(z3.And(pre + [ops.z3int(a[i]) < ops.z3int(b[i]), ops.z3int(b[i]) >= 0]))
        return z3.Or(conds)

    def check_invariants(self, spec, fr, tag, phase, line):
        from . import speclib
        for n, inv in enumerate(spec.get('invariant', [])):
            wit = (spec.get('witness') or {}).get(n) if phase == 'preserve' else None
            if wit:
                # the existential quantifiers of this invariant are proved with the given witnesses (terms over the state at the back edge)
                speclib._WITNESS[:] = [self.eval_spec(w, fr) for w in wit]
            try:
                g = self.eval_spec(inv, fr)
            except Unsupported as u:
                if 'unknown name in spec' not in str(u):
                    raise
                # the clause names a local that no longer exists (e.g. a manual counter replaced by enumerate): it is neither
                # proved nor assumed - the proof has to get by without it
                self.trusted_used.add('invariant clause dropped (names a local that no longer exists): %s' % inv[:80])
                continue
            finally:
                speclib._WITNESS[:] = []
            self.oblige('%s.inv%d.%s' % (tag, n, phase), g, 'invariant', line, note=inv)

    def assume_lemmas(self, texts, fr):
        from .lemma import LemmaInstance
        for t in texts:
            g = self.eval_spec(t, fr)
            if isinstance(g, LemmaInstance):
                pre = z3.simplify(g.pre)
                if not z3.is_true(pre):
                    self.oblige('%s.lemma.%s.pre@L%d' % (fr.fi.key if fr.fi else self.top_key, g.name, self.cur_line), pre,
                                'lemma-pre', self.cur_line, note='hypotheses of lemma instance ' + t)
                    self.assume(pre)
                self.assume(g.claim)
                self.lemmas_used.add(g.name)
                continue
            self.assume(g if not is_symbolic(g) else ops.z3bool(g))

    lemmas_used = set()
    last_top_env = {}
    ghost_frames = []
    cur_top_contract_key = None
    effects = []

    def assume_invariants(self, spec, fr):
        for inv in spec.get('invariant', []):
            try:
                g = self.eval_spec(inv, fr)
            except Unsupported as u:
                if 'unknown name in spec' not in str(u):
                    raise
                continue
            self.assume(g if not is_symbolic(g) else ops.z3bool(g))

    def modified_in(self, body, fr):
        """names and self-fields assigned or mutated in a loop body (syntactic)"""
        names, fields = set(), set()

        def target(t):
            if isinstance(t, ast.Name):
                names.add(t.id)
            elif isinstance(t, (ast.Tuple, ast.List)):
                for e in t.elts:
                    target(e)
            elif isinstance(t, ast.Subscript):
                target(t.value)
            elif isinstance(t, ast.Attribute):
                if isinstance(t.value, ast.Name):
                    fields.add((t.value.id, self.mangle(t.attr, fr)))
                else:
                    target(t.value)
        for stmt in body:
            for n in ast.walk(stmt):
                if isinstance(n, ast.Assign):
                    for t in n.targets:
                        target(t)
                elif isinstance(n, (ast.AugAssign, ast.AnnAssign)):
                    target(n.target)
                elif isinstance(n, ast.For):
                    target(n.target)
                elif isinstance(n, ast.Call) and isinstance(n.func, ast.Attribute) and n.func.attr in MUTATORS:
                    target(n.func.value)
                elif isinstance(n, ast.Call) and isinstance(n.func, ast.Attribute) and \
                        isinstance(n.func.value, ast.Name):
                    # method call on an object: its declared frame
                    objname = n.func.value.id
                    ov = fr.env.get(objname)
                    if isinstance(ov, Obj):
                        fi = self.sb.class_method(ov.cls, self.mangle(n.func.attr, fr))
                        if fi is not None:
                            c = self.contracts.get(fi.key)
                            mods = c.get('modifies', []) if c else self.scan_field_writes(fi)
                            for f in mods:
                                fields.add((objname, f))
                elif isinstance(n, ast.ExceptHandler) and n.name:
                    names.add(n.name)
        return names, fields

    def scan_field_writes(self, fi, seen=None):
        seen = seen or set()
        if fi.key in seen:
            return set()
        seen.add(fi.key)
        out = set()
        cls = fi.cls
        for n in ast.walk(fi.node):
            tgt = []
            if isinstance(n, ast.Assign):
                tgt = n.targets
            elif isinstance(n, (ast.AugAssign, ast.AnnAssign)):
                tgt = [n.target]
            elif isinstance(n, ast.Call) and isinstance(n.func, ast.Attribute):
                if n.func.attr in MUTATORS:
                    tgt = [n.func.value]
                elif isinstance(n.func.value, ast.Name) and n.func.value.id == 'self' and cls:
                    at = n.func.attr
                    if at.startswith('__') and not at.endswith('__'):
                        at = '_%s%s' % (cls, at)
                    pycls = fi.module.ns.get(cls)
                    f2 = self.sb.class_method(pycls, at) if pycls else None
                    if f2 is not None:
                        c = self.contracts.get(f2.key)
                        out |= set(c.get('modifies', [])) if c else self.scan_field_writes(f2, seen)
            for t in tgt:
                while isinstance(t, ast.Subscript):
                    t = t.value
                if isinstance(t, ast.Attribute) and isinstance(t.value, ast.Name) and t.value.id == 'self':
                    a = t.attr
                    if a.startswith('__') and not a.endswith('__') and cls:
                        a = '_%s%s' % (cls, a)
                    out.add(a)
        return out

    def fresh_like(self, v, name, ty=None):
        if ty is not None:
            return self.fresh_typed(name, ty)
        if isinstance(v, bool):
            return self.fresh(name, 'bool')
        if isinstance(v, int):
            return self.fresh(name, 'int')
        if isinstance(v, Fraction):
            return self.fresh(name, 'real')
        if isinstance(v, Sym):
            return self.fresh(name, v.k)
        if isinstance(v, SChar):
            return self.fresh(name, 'char')
        if isinstance(v, SSeq):
            return self.fresh_seq(name, v.kind, v.ek)
        if isinstance(v, str):
            return self.fresh_seq(name, 'str', 'char')
        if isinstance(v, (list, tuple)):
            eks = set(ops.elem_kind_of_value(x) for x in v)
            if len(v) and None not in eks and len(eks - {'int', 'bool'}) <= 1:
                ek = 'int' if eks <= {'int', 'bool'} else list(eks - {'int', 'bool'})[0]
                return self.fresh_seq(name, 'list' if isinstance(v, list) else 'tuple', ek)
            raise Unsupported('cannot havoc %s (list of unknown element type): give a type in the loop spec' % name)
        if isinstance(v, ASet) or (isinstance(v, (set, frozenset)) and len(v) == 0):
            return self.fresh_typed(name, 'aset')
        if isinstance(v, SDict):
            nm = self.fresh_name(name)
            return SDict(z3.Const(nm + '.dom', AB), z3.Const(nm + '.val', {'char': AI, 'int': AI, 'real': AR}[v.ek]), v.ek)
        if isinstance(v, dict) and all(not is_symbolic(k) for k in v):
            return {k: self.fresh_like(x, '%s[%s]' % (name, k)) for k, x in v.items()}
        if v is None:
            raise Unsupported('cannot havoc %s (None before the loop): give a type in the loop spec' % name)
        if isinstance(v, Opaque) and v.what == 'time':
            return Opaque('time')       # a clock reading stays a clock reading (its value is never looked at)
        return Opaque('havoc:' + name)

    def havoc_loop(self, s, fr, o, spec):
        names, fields = self.modified_in(s.body, fr)
        types = spec.get('types', {})
        prom = self.promote.get((fr.fi.key, o), set())
        keep = set(spec.get('unmodified', []))
        for n in sorted(names):
            if n in keep:
                continue
            if n not in fr.env and n not in types:
                continue
            ty = types.get(n)
            if ty is None and n in prom:
                ty = 'real'
            fr.env[n] = self.fresh_like(fr.env.get(n), n, ty)
        for (objn, f) in sorted(fields):
            ov = fr.env.get(objn)
            if isinstance(ov, Obj) and f in ov.fields:
                ty = types.get('%s.%s' % (objn, f))
                if ty is None and ('%s.%s' % (objn, f)) in prom:
                    ty = 'real'
                ov.fields[f] = self.fresh_like(ov.fields[f], '%s.%s' % (objn, f), ty)
        fr._havoced = (names, fields)

    def check_promotion(self, s, fr, o):
        """a variable havoc'd as int that now holds a real -> redo with a real"""
        names, fields = fr._havoced
        key = (fr.fi.key, o)
        changed = False
        typed = set(((self.loops.get(fr.fi.key) or {}).get(o) or {}).get('types', {}))
        names = [n for n in names if n not in typed]
        fields = [(a, b) for (a, b) in fields if '%s.%s' % (a, b) not in typed]
        for n in names:
            v = fr.env.get(n)
            if ops.kind_of(v) == 'real' and n not in self.promote.get(key, set()):
                # was it havoc'd as int?
                self.promote.setdefault(key, set())
                if n not in self.promote[key]:
                    self.promote[key].add(n)
                    changed = True
        for (objn, f) in fields:
            ov = fr.env.get(objn)
            if isinstance(ov, Obj):
                v = ov.fields.get(f)
                nm = '%s.%s' % (objn, f)
                if ops.kind_of(v) == 'real' and nm not in self.promote.get(key, set()):
                    self.promote.setdefault(key, set()).add(nm)
                    changed = True
        if changed and not getattr(self, '_promoting', False):
            # only restart if the variable was an int before the havoc: detect by the fresh symbol kind
            raise Restart()

    # ------------------------------------------------------------------ specs
    def eval_spec(self, text, fr, extra=None):
        node = self.parse_spec(text)
        env = dict(fr.env)
        if extra:
            env.update(extra)
        f2 = Frame(fr.fi, env, spec=True, ns=fr.ns)
        self.in_spec += 1
        try:
            return self.eval(node, f2)
        except Raised as ex:
            # an exception while evaluating a SPECIFICATION clause is never an exception of the program
            raise Unsupported('exception %s while evaluating the specification clause %r' % (getattr(getattr(ex, 'exc', None), 'cls', type(ex)).__name__
                                                                                         if hasattr(ex, 'exc') else 'raised', text[:80]))
        finally:
            self.in_spec -= 1

    def eval_spec_value(self, text, env):
        """evaluate a spec expression in an explicit environment (used by receiver builders)"""
        f2 = Frame(None, dict(env), spec=True, ns={})
        self.in_spec += 1
        try:
            v = self.eval(self.parse_spec(text), f2)
        finally:
            self.in_spec -= 1
        return ops.z3bool(v) if is_symbolic(v) else bool(v)

    _spec_cache = {}

    def parse_spec(self, text):
        n = self._spec_cache.get(text)
        if n is None:
            n = ast.parse(text.strip(), mode='eval').body
            n = _OldRewriter().visit(n)
            ast.fix_missing_locations(n)
            self._spec_cache[text] = n
        return n


class _OldRewriter(ast.NodeTransformer):
    """old(e) -> __oldcall__('e'): e is evaluated in the entry state of the function"""

    def visit_Call(self, node):
        self.generic_visit(node)
        if isinstance(node.func, ast.Name) and node.func.id == 'old' and len(node.args) == 1:
            return ast.Call(func=ast.Name(id='__oldcall__', ctx=ast.Load()),
                            args=[ast.Constant(value=ast.unparse(node.args[0]))], keywords=[])
        return node
