"""Loads the side-car contracts, generates the obligations of a set of functions / lemmas from the
current source tree and discharges them."""
import importlib
import os
import pkgutil
import time
import z3

from .sandbox import Sandbox
from .interp import Interp
from . import models, solve, speclib, contract
from .ops import Unsupported


class MissingWitness(Exception):
    """a postcondition names a local of the function as its witness, but this path never assigned it"""


class Verifier:
    def __init__(self, repo=None):
        self.repo = repo or os.environ.get('REPO', '/repo')
        self.sb = Sandbox(self.repo)
        self.contracts = {}
        self.loops = {}
        self.lemmas = {}
        self.spec = dict(speclib.NAMES)
        self.key_models = {}
        self.extra = {}
        self._prepare = []
        import contracts as cpkg
        for m in pkgutil.iter_modules(cpkg.__path__):
            mod = importlib.import_module('contracts.' + m.name)
            self.contracts.update(getattr(mod, 'CONTRACT', {}))
            for k, v in getattr(mod, 'LOOPS', {}).items():
                self.loops.setdefault(k, {}).update(v)
            self.lemmas.update(getattr(mod, 'LEMMAS', {}))
            self.spec.update(getattr(mod, 'SPEC', {}))
            self.key_models.update(getattr(mod, 'KEY_MODELS', {}))
            self.extra.update(getattr(mod, 'EXTRA', {}))
            if hasattr(mod, 'prepare'):
                self._prepare.append(mod.prepare)
        # the class invariant is a precondition of every method whose receiver is built with it
        for k, c in self.contracts.items():
            inv = getattr(c.get('self'), 'inv', None)
            if inv and not c.get('no_inv') and inv not in c.get('requires', []):
                c['requires'] = [inv] + list(c.get('requires', []))
        self.sb.load('localcider.backend.sequence')
        self.interp = Interp(self.sb, self.contracts, self.loops, models.build_models(), solve.feasibility_oracle)
        self.interp.spec_env.update(self.spec)
        self.interp.key_models = self.key_models
        def _local(name, default=None):
            gs = self.interp.ghost_frames
            if gs and name in gs[-1]:
                return gs[-1][name]         # ghost of a callee, at a call site of its contract
            if default is not None:
                return self.interp.last_top_env.get(name, default)
            if name not in self.interp.last_top_env:
                fi_ = self.interp.sb.func(self.interp.top_key) if self.interp.top_key else None
                alt = self.interp.renamed(fi_).get(name) if fi_ is not None else None
                if alt in self.interp.last_top_env:
                    return self.interp.last_top_env[alt]
                raise MissingWitness(name)
            return self.interp.last_top_env[name]
        self.interp.ghost_frames = []

        def _when(cond, inst):
            """guarded use of a lemma: its hypotheses are only required, and its claim only assumed, under cond"""
            import z3
            from . import ops
            from .lemma import LemmaInstance
            from .values import is_symbolic
            c = ops.z3bool(cond) if is_symbolic(cond) else z3.BoolVal(bool(cond))
            return LemmaInstance(inst.name, z3.Implies(c, inst.pre), z3.Implies(c, inst.claim))
        self.interp.spec_env['when'] = _when

        def _effect(name, k=0):
            """positional arguments of the k-th recorded call whose name ends with `name`"""
            hits = [e for e in self.interp.effects if e[0].endswith(name)]
            return hits[k][1]
        self.interp.spec_env['effect'] = _effect
        self.interp.spec_env['effect_count'] = lambda name: len([e for e in self.interp.effects if e[0].endswith(name)])
        self.interp.spec_env['local'] = _local
        for n, l in self.lemmas.items():
            self.interp.spec_env[n] = (lambda l: (lambda *a: l.instance(self.interp, a)))(l)
        for prep in self._prepare:
            prep(self)
        # exception classes of the repository
        exc = self.sb.load('localcider.backend.localciderExceptions')
        for k, v in vars(exc).items():
            if isinstance(v, type) and issubclass(v, BaseException):
                self.interp.exc_classes[k] = v

    def generate(self, keys, lemma_names=(), extra=()):
        """returns (obligations, function reports)"""
        obs = []
        reports = []
        for e in extra:
            obs.extend(self.extra[e](self))
        for ln in lemma_names:
            obs.extend(self.lemmas[ln].proof_obligations(self.interp))
        for key in keys:
            c = self.contracts[key]
            try:
                rep = contract.verify_function(self.interp, key, c)
            except Unsupported as u:
                rep = contract.FunctionReport(key)
                rep.out_of_subset.append(str(u))
            except (z3.Z3Exception, TypeError, AttributeError, KeyError, IndexError, ValueError, AssertionError, RecursionError) as ex:
                # the executor met a construct it handles wrongly (typically after a restructuring of the code): no obligation of
                # this function is trusted, the function counts as outside the subset
                import traceback
                rep = contract.FunctionReport(key)
                rep.out_of_subset.append('executor error %s: %s [%s]' % (type(ex).__name__, str(ex)[:200], traceback.format_exc().strip().split('\n')[-3][:160]))
            reports.append(rep)
            rep.key = key
            if '#' in key:
                for o in rep.obligations:
                    o.name = o.name + '#' + key.split('#')[1]
            seen = set()
            for o in rep.obligations:
                k = (o.name, tuple(sorted(p.get_id() for p in o.pc)), o.goal.get_id())
                if k in seen:
                    continue
                seen.add(k)
                obs.append(o)
        return obs, reports

    def run(self, keys, lemma_names=(), timeout_ms=20000, procs=None, extra=()):
        t0 = time.time()
        obs, reports = self.generate(keys, lemma_names, extra)
        tg = time.time() - t0
        res = solve.discharge_all(obs, timeout_ms, procs)
        out = []
        for o, r in zip(obs, res):
            d = dict(name=o.name, func=o.func, kind=o.kind, line=o.line, note=o.note, path=list(o.path))
            d.update(r)
            out.append(d)
        return out, reports, tg
