"""Specification vocabulary, dual mode.

Every function here works on *concrete* values (ints, Fractions, str, list:
used by the native bounded checks and by replay, under any interpreter, no z3
needed) and on *symbolic* values (used by the VC generator).  Contracts are
Python expressions over these names.

Sums are the one recursive notion:  isum/rsum(f, lo, hi) = sum_{lo<=j<hi} f(j),
symbolically  SumI/SumR(Lambda j. f(j), lo, hi)  with the defining equations
  hi <= lo -> S(A,lo,hi) = 0 ;  hi > lo -> S(A,lo,hi) = S(A,lo,hi-1) + A[hi-1]
instantiated by the solver front end at the terms a VC mentions (fuel 2).
"""
from fractions import Fraction
import math

try:
    import z3
    from .values import Sym, SChar, SSeq, SSet, ASet, SDict, Choice, I, R, B, AI, AR, AB
    from . import ops
    from .ops import LAM
    HAVE_Z3 = True
    SumI = z3.Function('SumI', AI, I, I, I)
    SumR = z3.Function('SumR', AR, I, I, R)
    MaxR = z3.Function('MaxR', AR, I, I, R)
except ImportError:      # native interpreter (/venv) has no z3
    HAVE_Z3 = False
    Sym = SChar = SSeq = SSet = Choice = ()

_depth = [0]
_memo = {}


def _key(v):
    if HAVE_Z3:
        if isinstance(v, Sym) or isinstance(v, SChar):
            return ('z', v.e.get_id())
        if isinstance(v, SSeq):
            return ('s', v.arr.get_id(), v.off.get_id(), v.n.get_id(), v.kind, v.ek)
        if z3.is_expr(v):
            return ('e', v.get_id())
    if isinstance(v, (int, str, Fraction, bool, type(None))):
        return ('c', type(v).__name__, v)
    raise TypeError


def memo(f):
    """memoise a spec function on the identity of its (symbolic) arguments; only used while no bound variable is open"""
    def g(*a):
        if not HAVE_Z3:
            return f(*a)
        try:
            k = (f.__name__, _depth[0]) + tuple(_key(x) for x in a)
        except TypeError:
            return f(*a)
        hit = _memo.get(k)
        if hit is not None:
            return hit[0]
        r = f(*a)
        _memo[k] = (r, a)
        return r
    g.__name__ = f.__name__
    return g


def _sym(*vs):
    return HAVE_Z3 and any(isinstance(v, (Sym, SChar, SSeq, SSet, ASet, SDict, Choice)) or (HAVE_Z3 and z3.is_expr(v)) for v in vs)


def _bound():
    _depth[0] += 1
    return z3.Int('j!b%d' % _depth[0])


def _unbound():
    _depth[0] -= 1


DEFS = {}


def define(name, argkinds, retkind):
    """named spec function over scalars: symbolically an uninterpreted application  name(args)  whose defining
    equation  name(args) == body(args)  is instantiated by the solver front end at the applications that occur
    (keeps terms small and makes beta-reduced applications syntactically stable)"""
    def deco(f):
        if not HAVE_Z3:
            return f
        srt = {'int': I, 'real': R, 'bool': B}
        decl = z3.Function(name, *([srt[k] for k in argkinds] + [srt[retkind]]))
        DEFS[name] = (decl, f, argkinds, retkind)

        def g(*a):
            if not _sym(*a):
                return f(*a)
            zs = [ops.z3int(x) if k == 'int' else (ops.z3real(x) if k == 'real' else ops.z3bool(x)) for x, k in zip(a, argkinds)]
            return Sym(decl(*zs), retkind)
        g.__name__ = name
        g.body = f
        return g
    return deco


def define_over(name, nctx, argkinds, retkind):
    """like `define`, for spec functions whose first `nctx` arguments are sequences: one uninterpreted symbol per
    (function, identity of those sequences), applied to the remaining scalar arguments"""
    def deco(f):
        if not HAVE_Z3:
            return f
        srt = {'int': I, 'real': R, 'bool': B}

        def g(*a):
            ctx, sc = a[:nctx], a[nctx:]
            if not _sym(*a):
                return f(*a)
            try:
                key = name + '!' + '_'.join(str(_key(c)[1:]) for c in ctx)
            except TypeError:
                return f(*a)
            if key not in DEFS:
                decl = z3.Function(key, *([srt[k] for k in argkinds] + [srt[retkind]]))
                DEFS[key] = (decl, (lambda ctx_: (lambda *s_: f(*(ctx_ + s_))))(ctx), argkinds, retkind, ctx)
            decl = DEFS[key][0]
            zs = [ops.z3int(x) if k == 'int' else (ops.z3real(x) if k == 'real' else ops.z3bool(x)) for x, k in zip(sc, argkinds)]
            return Sym(decl(*zs), retkind)
        g.__name__ = name
        return g
    return deco


def isum(f, lo, hi):
    """sum of the integer-valued f(j) for lo <= j < hi"""
    if not _sym(lo, hi):
        acc = 0
        for j in range(lo, hi):
            acc = acc + f(j)
        return acc
    j = _bound()
    try:
        body = ops.z3int(f(Sym(j, 'int')))
    finally:
        _unbound()
    return ops.mk(SumI(LAM(j, body), ops.z3int(lo), ops.z3int(hi)), 'int')


def rsum(f, lo, hi):
    """sum of the real-valued f(j) for lo <= j < hi"""
    if not _sym(lo, hi):
        acc = Fraction(0)
        for j in range(lo, hi):
            acc = acc + f(j)
        return acc
    j = _bound()
    try:
        body = ops.z3real(f(Sym(j, 'int')))
    finally:
        _unbound()
    return ops.mk(SumR(LAM(j, body), ops.z3int(lo), ops.z3int(hi)), 'real')


def rmax(f, lo, hi):
    """running maximum of f(j) for lo <= j < hi, starting from -1 (the "not yet computed" value of the delta-max search)"""
    if not _sym(lo, hi) and (hi - lo <= 2 or not HAVE_Z3 or not _sym(f(lo))):
        acc = Fraction(-1)
        for j in range(lo, hi):
            v = f(j)
            acc = ite(acc < v, v, acc)
        return acc
    j = _bound()
    try:
        body = ops.z3real(f(Sym(j, 'int')))
    finally:
        _unbound()
    return ops.mk(MaxR(LAM(j, body), ops.z3int(lo), ops.z3int(hi)), 'real')


def rep(c, k):
    """the string c * k"""
    if _sym(k, c):
        return ops.repeat(c, k)
    return c * k


def cat(*parts):
    """string concatenation, left to right"""
    acc = parts[0]
    for p_ in parts[1:]:
        acc = ops.concat(acc, p_) if _sym(acc, p_) else acc + p_
    return acc


def cnt(p, lo, hi):
    """number of lo <= j < hi with p(j)"""
    return isum(lambda j: ite(p(j), 1, 0), lo, hi)


def ite(c, a, b):
    """if-then-else; a branch may be given as a zero-argument lambda to delay its evaluation
    (needed natively when the other branch guards a division)"""
    if _sym(c):
        return ops.ite(c, a() if callable(a) else a, b() if callable(b) else b)
    if c:
        return a() if callable(a) else a
    return b() if callable(b) else b


def implies(a, b):
    if _sym(a, b):
        return ops.mk(z3.Implies(ops.z3bool(a), ops.z3bool(b)), 'bool')
    return (not a) or bool(b)


def iff(a, b):
    if _sym(a, b):
        return ops.mk(ops.z3bool(a) == ops.z3bool(b), 'bool')
    return bool(a) == bool(b)


def And(*xs):
    if _sym(*xs):
        return ops.mk(z3.And([ops.z3bool(x) for x in xs]), 'bool')
    return all(xs)


def Or(*xs):
    if _sym(*xs):
        return ops.mk(z3.Or([ops.z3bool(x) for x in xs]), 'bool')
    return any(xs)


def Not(x):
    if _sym(x):
        return ops.mk(z3.Not(ops.z3bool(x)), 'bool')
    return not x


def forall(f, lo, hi):
    """f(j) for every lo <= j < hi"""
    if not _sym(lo, hi):
        vals = [f(j) for j in range(lo, hi)]
        return And(*vals) if _sym(*vals) else all(vals)
    hz = z3.simplify(ops.z3int(hi))
    if _SPLIT_LAST[0] and z3.is_add(hz) and hz.num_args() == 2 and z3.is_int_value(hz.arg(0)) and hz.arg(0).as_long() == 1:
        # [lo, t+1) = [lo, t) and the point t: hands the solver the case split of an invariant's preservation step
        t = hz.arg(1)
        _SPLIT_LAST[0] = False
        try:
            rest = forall(f, lo, Sym(t, 'int'))
            last = ops.z3bool(f(Sym(t, 'int')))
        finally:
            _SPLIT_LAST[0] = True
        lz = ops.z3int(lo)
        return ops.mk(z3.And(ops.z3bool(rest) if not isinstance(rest, bool) else z3.BoolVal(rest), z3.Implies(lz <= t, last)), 'bool')
    j = _bound()
    try:
        body = ops.z3bool(f(Sym(j, 'int')))
    finally:
        _unbound()
    return ops.mk(z3.ForAll([j], z3.Implies(z3.And(j >= ops.z3int(lo), j < ops.z3int(hi)), body)), 'bool')


_SPLIT_LAST = [True]


def forall_char(f):
    """f(c) for every one-character string c"""
    if not HAVE_Z3:
        return all(f(chr(i)) for i in list(range(0, 0x250)) + [0x2003, 0x3000, 0x212a])
    j = _bound()
    try:
        body = ops.z3bool(f(SChar(j)))
    finally:
        _unbound()
    return ops.mk(z3.ForAll([j], body), 'bool')


def mkset(f, ek='char'):
    """the set { c | f(c) }"""
    if not HAVE_Z3:
        return frozenset(chr(i) for i in range(0, 0x250) if f(chr(i)))
    j = _bound()
    try:
        body = ops.z3bool(f(SChar(j) if ek == 'char' else Sym(j, 'int')))
    finally:
        _unbound()
    return SSet(LAM(j, body), ek, None)


_WITNESS = []       # witnesses for the existential quantifiers of a GOAL being evaluated (never for an assumption): consumed outside-in


def exists(f, lo, hi):
    if _WITNESS:
        w = _WITNESS.pop(0)
        return And(lo <= w, w < hi, f(w))       # proving the instance proves the existential statement
    if not _sym(lo, hi):
        vals = [f(j) for j in range(lo, hi)]
        return Or(*vals) if _sym(*vals) else any(vals)
    j = _bound()
    try:
        body = ops.z3bool(f(Sym(j, 'int')))
    finally:
        _unbound()
    return ops.mk(z3.Exists([j], z3.And(j >= ops.z3int(lo), j < ops.z3int(hi), body)), 'bool')


def length(x):
    if _sym(x):
        return ops.length(x)
    return len(x)


def isin(x, chars):
    """x is one of the characters of the string `chars` (or member of a list)"""
    if _sym(x):
        return ops.contains(chars, x)
    return x in chars


def sqrt(x):
    if _sym(x):
        return ops.mk(ops._uf(ops.SQRT, ops.z3real(x)), 'real')
    return math.sqrt(x)


def pow10(x):
    if _sym(x):
        return ops.mk(ops._uf(ops.POW10, ops.z3real(x)), 'real')
    if HAVE_Z3 and isinstance(x, (int, Fraction)):
        return ops.mk(ops._uf(ops.POW10, ops.z3real(x)), 'real')
    return 10.0 ** float(x)


def logb(x, base):
    if _sym(x, base) or (HAVE_Z3 and isinstance(x, Fraction)):
        return ops.mk(ops._uf(ops.LOGB, ops.z3real(x), ops.z3real(base)), 'real')
    return math.log(x, base)


def absv(x):
    if _sym(x):
        return ops.absval(x)
    return abs(x)


def toreal(x):
    if _sym(x):
        return ops.mk(ops.z3real(x), 'real')
    return Fraction(x)


def fdiv(a, b):
    """floor division"""
    if _sym(a, b):
        return ops.binop('//', a, b, spec=True)
    return a // b


def maxv(a, b):
    return ite(a >= b, a, b)


def minv(a, b):
    return ite(a <= b, a, b)


def seq_eq(a, b):
    """two sequences are equal (same length, same elements)"""
    if _sym(a, b):
        return ops.equal(a, b)
    return list(a) == list(b)


def is_none(x):
    if HAVE_Z3 and isinstance(x, Choice):
        return ops.mk(z3.Or([c for c, v in x.alts if v is None] or [z3.BoolVal(False)]), 'bool')
    return x is None


def the(x):
    """the non-None alternative of an optional value"""
    if HAVE_Z3 and isinstance(x, Choice):
        vs = [v for c, v in x.alts if v is not None]
        return vs[0]
    return x


def as_seq(x):
    """a Python list/tuple as an indexable sequence in both modes"""
    if HAVE_Z3 and isinstance(x, (list, tuple)):
        from .interp import PathEnd
        return ops.to_sseq(list(x)) if len(x) else SSeq(z3.K(I, z3.IntVal(0)), 0, 0, 'list', 'int')
    return x


def put(seq, i, v):
    """the sequence with element i replaced by v"""
    if _sym(seq, i, v):
        return ops.store_seq(seq, i, v)
    l = list(seq)
    l[i] = v
    return ''.join(l) if isinstance(seq, str) else l


def mkseq(f, n, ek='real'):
    """the sequence [f(0), ..., f(n-1)]"""
    if not _sym(n):
        try:
            return [f(j) for j in range(n)]
        except TypeError:
            pass
    j = _bound()
    try:
        v = f(Sym(j, 'int'))
        body = ops.z3real(v) if ek == 'real' else (ops.char_code(v) if ek == 'char' else (ops.z3bool(v) if ek == 'bool' else ops.z3int(v)))
    finally:
        _unbound()
    return SSeq(LAM(j, body), 0, ops.z3int(n), 'list', ek)


NAMES = dict(define_over=define_over, put=put, as_seq=as_seq, define=define, memo=memo, rmax=rmax, rep=rep, cat=cat, mkseq=mkseq, mkset=mkset, forall_char=forall_char, isum=isum, rsum=rsum, cnt=cnt, ite=ite, implies=implies, iff=iff, And=And, Or=Or, Not=Not,
             forall=forall, exists=exists, length=length, isin=isin, sqrt=sqrt, pow10=pow10, logb=logb,
             absv=absv, toreal=toreal, fdiv=fdiv, maxv=maxv, minv=minv, seq_eq=seq_eq, is_none=is_none,
             the=the, Fraction=Fraction)
