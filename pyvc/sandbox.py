"""Sandbox loader: re-reads the repository's Python sources on every run.

Every module of localcider that the verifier touches is parsed with `ast`
(the AST is what the VC generator executes symbolically) and, so that
*closed* computations (literal tables, `ResTable()` built at import time)
have their real values, the module is also executed natively in a private
namespace.  Two mechanical transformations are applied before the native
execution and nowhere else:

  * every float literal `x` becomes `Fraction('<x as written>')` (floats are
    treated as mathematical reals: see DESIGN 1.2);
  * imports of third-party modules that are not present in the tooling
    interpreter (matplotlib, Bio) are replaced by opaque stubs.

Nothing is copied by hand: an edit to a table entry or to a function body in
/repo changes what this module returns.
"""
import ast
import builtins
import hashlib
import os
import sys
import types
from fractions import Fraction


class LitFraction(Fraction):
    """a float literal as an exact rational; numpy ufuncs applied to it at import time (default arguments such as
    np.exp(.000001)) fall back to these methods"""

    def exp(self):
        import math
        return math.exp(self)

    def log(self):
        import math
        return math.log(self)

    def sqrt(self):
        import math
        return math.sqrt(self)


class OpaqueModule(types.ModuleType):
    """Stub for an unavailable third-party module (matplotlib, Bio...)."""

    def __getattr__(self, name):
        if name.startswith('__'):
            raise AttributeError(name)
        m = OpaqueModule(self.__name__ + '.' + name)
        setattr(self, name, m)
        return m

    def __call__(self, *a, **k):
        return OpaqueModule(self.__name__ + '()')


class _FloatToFraction(ast.NodeTransformer):
    def __init__(self, src_lines):
        self.src_lines = src_lines

    def visit_Constant(self, node):
        if isinstance(node.value, float):
            txt = ast.get_source_segment('\n'.join(self.src_lines), node)
            try:
                fr = Fraction(txt) if txt is not None else Fraction(repr(node.value))
            except (ValueError, ZeroDivisionError):
                fr = Fraction(repr(node.value))
            new = ast.Call(func=ast.Name(id='__Fraction__', ctx=ast.Load()),
                           args=[ast.Constant(value=fr.numerator), ast.Constant(value=fr.denominator)],
                           keywords=[])
            return ast.copy_location(new, node)
        return node


def float_const_to_fraction(node, source):
    """Exact decimal value of a float literal *as written* in the source (memoised on the AST node)."""
    got = getattr(node, '_exact_fraction', None)
    if got is not None:
        return got
    txt = ast.get_source_segment(source, node)
    try:
        got = Fraction(txt) if txt is not None else Fraction(repr(node.value))
    except (ValueError, ZeroDivisionError):
        got = Fraction(repr(node.value))
    node._exact_fraction = got
    return got


class FuncInfo:
    """AST + provenance of one function of the repository."""

    def __init__(self, module, qualname, node, cls, source):
        self.module = module          # ModInfo
        self.qualname = qualname      # 'Sequence.deltaForm' or 'get_pKa'
        self.node = node              # ast.FunctionDef (untransformed)
        self.cls = cls                # class name or None
        seg = ast.get_source_segment(source, node) or ''
        self.sha = hashlib.sha256(seg.encode()).hexdigest()[:16]

    @property
    def key(self):
        return '%s:%s' % (self.module.relpath, self.qualname)

    def local_names(self):
        """parameters and assigned names of the function in order of first occurrence in the source (used to recognise renames)"""
        assigned = set(a.arg for a in self.node.args.args)
        for n in ast.walk(self.node):
            if isinstance(n, ast.Name) and isinstance(n.ctx, ast.Store):
                assigned.add(n.id)
        names = [n for n in ast.walk(self.node) if isinstance(n, (ast.Name, ast.arg))]
        names.sort(key=lambda n: (n.lineno, n.col_offset))
        out = []
        for n in names:
            nm = n.id if isinstance(n, ast.Name) else n.arg
            if nm in assigned and nm != 'self' and nm not in out:
                out.append(nm)
        return out

    def __repr__(self):
        return '<FuncInfo %s>' % self.key


class ModInfo:
    def __init__(self, name, relpath, path, source, tree):
        self.name = name
        self.relpath = relpath
        self.path = path
        self.source = source
        self.tree = tree
        self.ns = None
        self.funcs = {}     # qualname -> FuncInfo


class Sandbox:
    def __init__(self, repo=None, package='localcider'):
        self.repo = repo or os.environ.get('REPO', '/repo')
        self.package = package
        self.mods = {}        # dotted name -> ModInfo
        self.pymods = {}      # dotted name -> module object
        self.func_by_code = {}  # code object -> FuncInfo
        self._loading = set()

    # ------------------------------------------------------------------
    def _path_of(self, dotted):
        rel = dotted.replace('.', '/')
        p = os.path.join(self.repo, rel + '.py')
        if os.path.isfile(p):
            return p, False
        p = os.path.join(self.repo, rel, '__init__.py')
        if os.path.isfile(p):
            return p, True
        return None, False

    def load(self, dotted):
        if dotted in self.pymods:
            return self.pymods[dotted]
        path, is_pkg = self._path_of(dotted)
        if path is None:
            raise ImportError('sandbox: no module %s under %s' % (dotted, self.repo))
        # parents first
        if '.' in dotted:
            self.load(dotted.rsplit('.', 1)[0])
        source = open(path).read()
        tree = ast.parse(source, filename=path)
        relpath = os.path.relpath(path, self.repo)
        mi = ModInfo(dotted, relpath, path, source, tree)
        self.mods[dotted] = mi
        mod = types.ModuleType(dotted)
        mod.__file__ = path
        mod.__package__ = dotted if is_pkg else dotted.rsplit('.', 1)[0]
        if is_pkg:
            mod.__path__ = [os.path.dirname(path)]
        self.pymods[dotted] = mod
        mi.ns = mod.__dict__
        mod.__dict__['__Fraction__'] = LitFraction
        mod.__dict__['__builtins__'] = self._builtins()
        mod.__dict__['__name__'] = dotted
        # register function ASTs (from the *untransformed* tree)
        self._index_functions(mi)
        # native execution of the transformed copy
        t2 = ast.parse(source, filename=path)
        t2 = _FloatToFraction(source.split('\n')).visit(t2)
        ast.fix_missing_locations(t2)
        code = compile(t2, path, 'exec')
        if self.package == dotted and is_pkg:
            # the top-level package __init__ imports everything (incl. plotting); skip it
            pass
        else:
            exec(code, mod.__dict__)
        if '.' in dotted:
            parent, leaf = dotted.rsplit('.', 1)
            setattr(self.pymods[parent], leaf, mod)
        self._bind_code_objects(mi, mod)
        return mod

    def _builtins(self):
        b = dict(builtins.__dict__)
        sandbox = self

        def _imp(name, globals=None, locals=None, fromlist=(), level=0):
            if level > 0:
                pkg = globals.get('__package__') or ''
                base = pkg.split('.')
                if level > 1:
                    base = base[:-(level - 1)]
                full = '.'.join(base + ([name] if name else []))
                m = sandbox.load(full)
                for f in fromlist or ():
                    if not hasattr(m, f):
                        try:
                            sandbox.load(full + '.' + f)
                        except ImportError:
                            pass
                return m
            if name == sandbox.package or name.startswith(sandbox.package + '.'):
                m = sandbox.load(name)
                return m if fromlist else sandbox.pymods[name.split('.')[0]]
            try:
                return builtins.__import__(name, globals, locals, fromlist, level)
            except ImportError:
                top = name.split('.')[0]
                if top in ('matplotlib', 'Bio', 'scipy'):
                    m = sys.modules.get('__opaque__' + name) or OpaqueModule(name)
                    sys.modules['__opaque__' + name] = m
                    return m
                raise
        b['__import__'] = _imp
        return b

    def _index_functions(self, mi):
        def visit(body, prefix, cls):
            for n in body:
                if isinstance(n, (ast.FunctionDef,)):
                    q = prefix + n.name
                    mi.funcs[q] = FuncInfo(mi, q, n, cls, mi.source)
                elif isinstance(n, ast.ClassDef):
                    visit(n.body, prefix + n.name + '.', n.name)
        visit(mi.tree.body, '', None)

    def _bind_code_objects(self, mi, mod):
        for q, fi in mi.funcs.items():
            obj = mod
            try:
                for part in q.split('.'):
                    if isinstance(obj, type):
                        if part.startswith('__') and not part.endswith('__') and part not in obj.__dict__:
                            part = '_%s%s' % (obj.__name__.lstrip('_'), part)
                        obj = obj.__dict__[part]
                    else:
                        obj = getattr(obj, part)
            except (AttributeError, KeyError):
                continue
            if isinstance(obj, (staticmethod, classmethod)):
                obj = obj.__func__
            code = getattr(obj, '__code__', None)
            if code is not None:
                self.func_by_code[code] = fi

    # ------------------------------------------------------------------
    def func(self, key):
        """key: 'localcider/backend/sequence.py:Sequence.deltaForm'"""
        rel, q = key.split(':')
        q = q.split('#')[0]         # 'f#variant' = a second contract for the same function
        dotted = rel[:-3].replace('/', '.')
        if dotted.endswith('.__init__'):
            dotted = dotted[:-9]
        self.load(dotted)
        mi = self.mods[dotted]
        if q not in mi.funcs:
            raise KeyError('no function %s in %s' % (q, rel))
        return mi.funcs[q]

    def info_of(self, pyfunc):
        f = getattr(pyfunc, '__func__', pyfunc)
        code = getattr(f, '__code__', None)
        return self.func_by_code.get(code)

    def class_method(self, pyclass, name):
        """FuncInfo for method `name` looked up through the MRO of a sandbox class."""
        for k in pyclass.__mro__:
            if name in k.__dict__:
                return self.info_of(k.__dict__[name])
        return None
