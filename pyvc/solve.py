"""Solver front end: feasibility oracle, spec-function unfolding, normalisation and discharge.

Discharge pipeline for one obligation (pc, goal):
  0. goal simplifies to true                                  -> proved (syntactic)
  1. direct:  pc /\\ unfold(fuel 1) /\\ not goal   on z3       -> unsat = proved
  2. normalised: alpha/extensionally equal lambdas merged into one array constant (each merge
     justified by its own solver query  forall j. body1(j) == body2(j)), every closed sum term
     replaced by a fresh constant (the unfolding equations already instantiated are kept).
     The result is a *weakening* of the query, so unsat = proved; sat proves nothing.
  3. the same with fuel 2, longer budget, then the SMT-LIB text on z3 4.8.12 / cvc5.
`sat` of the direct query is only a *candidate* refutation (sums are axiomatised by finitely many
unfoldings): the caller validates it by concretisation / native replay.
"""
import os
import subprocess
import time
import z3

from .speclib import SumI, SumR, MaxR
from .ops import POW10, SQRT, LOGB, EXP

_feas_cache = {}
_light_cache = {}
_feas_ms = int(os.environ.get('PYVC_FEAS_MS', '400'))
stats = {'feas_calls': 0, 'feas_time': 0.0}


_sym_cache = {}
USE_CONE = [False]      # switched on per function by the contract key `feas_cone` (functions with very long path conditions)


def _symbols(e):
    """uninterpreted constants (any sort) of a term, memoised per term id"""
    got = _sym_cache.get(e.get_id())
    if got is not None:
        return got[0]
    out = set()
    seen = set()
    todo = [e]
    while todo:
        x = todo.pop()
        i = x.get_id()
        if i in seen:
            continue
        seen.add(i)
        if z3.is_quantifier(x):
            todo.append(x.body())
            continue
        if z3.is_app(x):
            if x.num_args() == 0 and x.decl().kind() == z3.Z3_OP_UNINTERPRETED:
                out.add(i)
            else:
                todo.extend(x.children())
    _sym_cache[e.get_id()] = (out, e)
    return out


def _cone(conj):
    """the conjuncts connected (through shared constants) to the LAST one, which is the condition being decided: dropping the others is a
    weakening, hence sound for proving infeasibility.  Conjuncts without constants are kept."""
    if len(conj) < 12:
        return conj
    syms = [_symbols(c) for c in conj]
    reach = set(syms[-1])
    if not reach:
        return conj
    keep = [False] * len(conj)
    keep[-1] = True
    changed = True
    while changed:
        changed = False
        for i, sy in enumerate(syms):
            if not keep[i] and (not sy or sy & reach):
                keep[i] = True
                if sy - reach:
                    reach |= sy
                    changed = True
    return [c for c, k in zip(conj, keep) if k]


def feasibility_oracle(conj):
    """True unless the conjunction is *proved* unsatisfiable (unknown counts as feasible).
    The check runs on a weakening of the conjunction (quantified conjuncts dropped, every closed sum / max term replaced
    by a fresh constant): cheap, and sound for proving infeasibility."""
    key = tuple(sorted(c.get_id() for c in conj)) + (USE_CONE[0],)
    hit = _feas_cache.get(key)
    if hit is not None:
        return hit[0]
    t = time.time()
    light = []
    if USE_CONE[0]:
        conj = _cone(conj)
    for c in conj:
        if z3.is_quantifier(c):
            continue
        lc = _light_cache.get(c.get_id())
        if lc is None:
            try:
                sums = collect_sums([c])
                if sums:
                    pairs = [(x, z3.Const('fs!%d' % x.get_id(), x.sort())) for x in sums]
                    l2 = z3.substitute(c, *pairs)       # top-down: outermost sum terms are replaced as a whole
                else:
                    l2 = c
            except z3.Z3Exception:
                l2 = c
            lc = (l2, c)
            _light_cache[c.get_id()] = lc
        light.append(lc[0])
    s = z3.Solver()
    s.set('timeout', _feas_ms)
    for c in light:
        s.add(c)
    for c in uf_axioms(light):
        s.add(c)
    r = s.check()
    stats['feas_calls'] += 1
    stats['feas_time'] += time.time() - t
    res = r != z3.unsat
    _feas_cache[key] = (res, conj)      # keep the terms alive so ids stay unique
    return res


def reset_cache():
    _feas_cache.clear()


# ------------------------------------------------------------------ unfolding
def _closed(e):
    seen = {}

    def go(x, depth):
        if z3.is_var(x):
            return z3.get_var_index(x) < depth
        if z3.is_quantifier(x):
            return go(x.body(), depth + x.num_vars())
        k = (x.get_id(), depth)
        if k in seen:
            return seen[k]
        r = all(go(c, depth) for c in x.children())
        seen[k] = r
        return r
    return go(e, 0)


def collect_sums(exprs):
    out = {}
    seen = set()

    def go(x):
        i = x.get_id()
        if i in seen:
            return
        seen.add(i)
        if z3.is_quantifier(x):
            go(x.body())
            return
        if z3.is_app(x):
            d = x.decl()
            if (d.eq(SumI) or d.eq(SumR) or d.eq(MaxR)) and _closed(x):
                out[i] = x
            for c in x.children():
                go(c)
    for e in exprs:
        go(e)
    return list(out.values())


def unfold_axiom(t, lower=True):
    S = t.decl()
    A, lo, hi = t.children()
    last = z3.simplify(z3.Select(A, hi - 1))
    prev = S(A, lo, z3.simplify(hi - 1))
    if S.eq(MaxR):
        # t >= -1 is lemma `rmax_lower` (proved by induction in contracts/lemmas.py), instantiated here
        if not lower:
            return z3.simplify(z3.And(z3.Implies(hi <= lo, t == -1), z3.Implies(hi > lo, t == z3.If(prev < last, last, prev))))
        return z3.simplify(z3.And(z3.Implies(hi <= lo, t == -1), z3.Implies(hi > lo, t == z3.If(prev < last, last, prev)), t >= -1))
    return z3.simplify(z3.And(z3.Implies(hi <= lo, t == 0), z3.Implies(hi > lo, t == prev + last)))


def unfold_all(formulas, fuel=1, lower=True):
    axioms = []
    done = set()
    frontier = list(formulas)
    for _ in range(fuel):
        new = []
        for t in collect_sums(frontier):
            if t.get_id() in done:
                continue
            done.add(t.get_id())
            ax = unfold_axiom(t, lower)
            axioms.append(ax)
            new.append(ax)
        if not new:
            break
        frontier = new
    return axioms


def uf_axioms(formulas):
    """instances of the axioms of the uninterpreted real functions at the terms that occur:
       pow10(x) > 0, exp(x) > 0, sqrt(x) >= 0 (DESIGN 1.4)"""
    out = []
    seen = set()
    from . import ops as _ops
    if not _ops.UF_USED[0]:
        return out

    def go(x):
        if x.get_id() in seen:
            return
        seen.add(x.get_id())
        if z3.is_quantifier(x):
            go(x.body())
            return
        if z3.is_app(x):
            d = x.decl()
            if (d.eq(POW10) or d.eq(EXP)) and _closed(x):
                out.append(x > 0)
            elif d.eq(SQRT) and _closed(x):
                out.append(x >= 0)
            elif d.eq(LOGB) and _closed(x):
                out.append(z3.Implies(x.arg(0) == 1, x == 0))       # log_b(1) = 0
            for c in x.children():
                go(c)
    pows = []

    def go2(x, seen2=set()):
        if x.get_id() in seen2:
            return
        seen2.add(x.get_id())
        if z3.is_quantifier(x):
            return
        if z3.is_app(x):
            if x.decl().eq(POW10) and _closed(x):
                pows.append(x)
            for c in x.children():
                go2(c, seen2)
    for f in formulas:
        go(f)
        go2(f)
    # pow10 is strictly increasing (pairwise instances, capped)
    uniq = {p.get_id(): p for p in pows}
    ps = list(uniq.values())[:12]
    for i in range(len(ps)):
        for k in range(i + 1, len(ps)):
            a, b = ps[i].arg(0), ps[k].arg(0)
            out.append(z3.And(z3.Implies(a < b, ps[i] < ps[k]), z3.Implies(b < a, ps[k] < ps[i]), z3.Implies(a == b, ps[i] == ps[k])))
    return out


def def_axioms(formulas, rounds=2):
    """defining equations of the named spec functions (speclib.define) at the closed applications that occur"""
    from . import speclib
    from .values import Sym
    from . import ops as _ops
    if not speclib.DEFS:
        return []
    names = {d[0].name(): d for d in speclib.DEFS.values()}
    out = []
    done = set()
    frontier = list(formulas)
    for _ in range(rounds):
        apps = {}
        seen = set()

        def go(x):
            if x.get_id() in seen:
                return
            seen.add(x.get_id())
            if z3.is_quantifier(x):
                go(x.body())
                return
            if z3.is_app(x):
                if x.num_args() > 0 and x.decl().name() in names and x.decl().eq(names[x.decl().name()][0]) and _closed(x):
                    apps[x.get_id()] = x
                for c in x.children():
                    go(c)
        for f in frontier:
            go(f)
        new = []
        for i, app in apps.items():
            if i in done:
                continue
            done.add(i)
            decl, body, argkinds, retkind = names[app.decl().name()][:4]
            args = [_ops.mk(a, k) for a, k in zip(app.children(), argkinds)]
            val = body(*args)
            vz = _ops.z3int(val) if retkind == 'int' else (_ops.z3real(val) if retkind == 'real' else _ops.z3bool(val))
            ax = app == vz
            out.append(ax)
            new.append(ax)
        if not new:
            break
        frontier = new
    return out


# ------------------------------------------------------------------ normalisation
def collect_lambdas(fs):
    out = {}
    seen = set()

    def go(x):
        if x.get_id() in seen:
            return
        seen.add(x.get_id())
        if z3.is_quantifier(x):
            if x.is_lambda() and _closed(x):
                out[x.get_id()] = x
                return
            go(x.body())
            return
        for c in x.children():
            go(c)
    for f in fs:
        go(f)
    return list(out.values())


_lam_eq_cache = {}


_lam_size = {}


def _small(l):
    i = l.get_id()
    v = _lam_size.get(i)
    if v is None:
        v = (len(l.sexpr()) < 1200, l)
        _lam_size[i] = v
    return v[0]


def lambdas_equal(a, b):
    """extensional equality of two lambdas, decided by a solver query on their bodies (small bodies only)"""
    if a.get_id() == b.get_id():
        return True
    k = (a.get_id(), b.get_id())
    if k in _lam_eq_cache:
        return _lam_eq_cache[k][0]
    if not (_small(a) and _small(b)):
        _lam_eq_cache[k] = (False, a, b)
        return False
    j = z3.Int('j!q')
    s = z3.Solver()
    s.set('timeout', 500)
    s.add(z3.simplify(z3.Select(a, j)) != z3.simplify(z3.Select(b, j)))
    r = s.check() == z3.unsat
    _lam_eq_cache[k] = (r, a, b)
    return r


def _solve_eqs(fs):
    """equisatisfiable rewriting: eliminate variables fixed by equalities (k == 7, x == t) so that terms which are equal
    under the path condition become syntactically equal before sums are replaced by constants"""
    try:
        g = z3.Goal()
        for f in fs:
            g.add(f)
        r = z3.Then(z3.Tactic('propagate-values'), z3.Tactic('solve-eqs'), z3.Tactic('simplify'))(g)
        if len(r) == 1:
            return [f for f in r[0]]
    except z3.Z3Exception:
        pass
    return fs


def normalise(fs):
    """merge provably equal lambdas, replace them by array constants, purify sum terms"""
    fs = _solve_eqs(fs)
    lams = collect_lambdas(fs)
    classes = []
    for l in lams:
        for cl in classes:
            if cl[0].sort() == l.sort() and lambdas_equal(cl[0], l):
                cl.append(l)
                break
        else:
            classes.append([l])
    subs = []
    for k, cl in enumerate(classes):
        c = z3.Const('lam!%d' % k, cl[0].sort())
        for l in cl:
            subs.append((l, c))
    if subs:
        fs = [z3.simplify(z3.substitute(f, *subs)) for f in fs]
    sums = collect_sums(fs)
    if sums and _sum_under_quantifier(fs):
        # a quantified fact speaks about sums with a bound argument: keep the sum terms as uninterpreted applications
        # (replacing the closed ones by constants would cut them off from the instances of that fact)
        sums = []
    if sums:
        pairs = [(t, z3.Const('sum!%d' % k, t.sort())) for k, t in enumerate(sums)]
        fs = [z3.substitute(f, *pairs) for f in fs]     # top-down: outermost terms first
        # inner sums that also occur on their own were replaced too; nested occurrences vanished with their parents
    return fs


_sk = [0]


def skolemise_goal(goal, depth=0):
    """universally quantified parts of the goal in positive position (at the top, as conjuncts, as disjuncts, as the conclusion of an
    implication) are proved for fresh constants (so that sums over the bound variable get unfolded and hypotheses can be instantiated)"""
    g = goal
    if depth > 6:
        return g
    if z3.is_quantifier(g) and g.is_forall():
        consts = []
        for i in range(g.num_vars()):
            _sk[0] += 1
            consts.append(z3.Const('sk!%d!%s' % (_sk[0], g.var_name(i)), g.var_sort(i)))
        # de-Bruijn order: variable 0 is the innermost (last) bound variable
        return skolemise_goal(z3.substitute_vars(g.body(), *reversed(consts)), depth + 1)
    if z3.is_and(g) and any(_has_quant(c) for c in g.children()):
        return z3.And([skolemise_goal(c, depth + 1) for c in g.children()])       # A and (forall j. B)  ==  forall j. (A and B)
    if z3.is_or(g) and any(_has_quant(c) for c in g.children()):
        return z3.Or([skolemise_goal(c, depth + 1) for c in g.children()])        # A or (forall j. B)   ==  forall j. (A or B)
    if z3.is_implies(g) and _has_quant(g.arg(1)):
        return z3.Implies(g.arg(0), skolemise_goal(g.arg(1), depth + 1))
    if z3.is_not(g) and z3.is_quantifier(g.arg(0)) and g.arg(0).is_exists():
        q = g.arg(0)
        consts = []
        for i in range(q.num_vars()):
            _sk[0] += 1
            consts.append(z3.Const('sk!%d!%s' % (_sk[0], q.var_name(i)), q.var_sort(i)))
        return z3.Not(z3.substitute_vars(q.body(), *reversed(consts)))
    return g


def _sum_under_quantifier(fs):
    seen = set()

    def go(x, inq):
        k = (x.get_id(), inq)
        if k in seen:
            return False
        seen.add(k)
        if z3.is_quantifier(x):
            return go(x.body(), True)
        if z3.is_app(x):
            d = x.decl()
            if inq and (d.eq(SumI) or d.eq(SumR) or d.eq(MaxR)) and not _closed(x):
                return True
            return any(go(c, inq) for c in x.children())
        return False
    return any(go(f, False) for f in fs)


def _consts_of(e):
    seen, out, todo = set(), [], [e]
    while todo:
        x = todo.pop()
        if x.get_id() in seen:
            continue
        seen.add(x.get_id())
        if z3.is_const(x) and x.decl().kind() == z3.Z3_OP_UNINTERPRETED:
            out.append(x)
        elif z3.is_app(x):
            todo.extend(x.children())
        elif z3.is_quantifier(x):
            todo.append(x.body())
    return out


def _index_terms(g, consts):
    """ground index terms of array reads in the (skolemised) goal that mention one of its skolem constants: a[off + n(sk)]"""
    ids = set(c.get_id() for c in consts)
    seen, out, todo = set(), [], [g]

    def mentions(t):
        st, sn = [t], set()
        while st:
            x = st.pop()
            if x.get_id() in sn:
                continue
            sn.add(x.get_id())
            if x.get_id() in ids:
                return True
            if z3.is_app(x):
                st.extend(x.children())
        return False
    while todo:
        x = todo.pop()
        if x.get_id() in seen or z3.is_quantifier(x):
            continue
        seen.add(x.get_id())
        if z3.is_app(x):
            if x.decl().kind() == z3.Z3_OP_SELECT:
                i = z3.simplify(x.arg(1))
                if i.sort() == z3.IntSort() and not z3.is_int_value(i) and not z3.is_const(i) and mentions(i) and not any(i.eq(o) for o in out):
                    out.append(i)
            todo.extend(x.children())
    return out


def _ground(f, consts, new, depth=0):
    """a WEAKENING of hypothesis f: universally quantified parts in positive position are replaced by their instances at `consts`
    (index terms with arithmetic give the solver no usable trigger), existentially quantified parts in positive position by a fresh
    witness constant (collected in `new`)"""
    if depth > 6:
        return f
    if z3.is_quantifier(f):
        if f.num_vars() != 1 or f.var_sort(0) != z3.IntSort():
            return f
        if f.is_forall():
            if not consts:
                return z3.BoolVal(True)
            return z3.And([_ground(z3.substitute_vars(f.body(), c), consts, new, depth + 1) for c in consts])
        if f.is_exists():
            _sk[0] += 1
            c = z3.Const('wit!%d!%s' % (_sk[0], f.var_name(0)), z3.IntSort())
            new.append(c)
            return _ground(z3.substitute_vars(f.body(), c), consts, new, depth + 1)
        return f
    if z3.is_and(f):
        return z3.And([_ground(c, consts, new, depth + 1) for c in f.children()])
    if z3.is_or(f):
        return z3.Or([_ground(c, consts, new, depth + 1) for c in f.children()])
    if z3.is_implies(f):
        return z3.Implies(f.arg(0), _ground(f.arg(1), consts, new, depth + 1))
    return f


def _has_quant(f, seen=None):
    seen = set() if seen is None else seen
    if f.get_id() in seen:
        return False
    seen.add(f.get_id())
    if z3.is_quantifier(f):
        return True
    return any(_has_quant(c, seen) for c in f.children()) if z3.is_app(f) else False


def _instances(hyps, consts):
    """two rounds: instances at the goal's skolem constants, then also at the witnesses those instances produced"""
    qh = [f for f in hyps if _has_quant(f)]
    if not qh or not consts:
        return []
    new = []
    out = [z3.simplify(_ground(f, consts, new)) for f in qh]
    if new:
        more = []
        out += [z3.simplify(_ground(f, new[:6], more)) for f in qh]
    return [f for f in out if not z3.is_true(f)]


def query_formulas(ob, fuel=1, selectors=None, ground=True):
    """the formulas of one query: path condition, negated (skolemised) goal, ground instances of quantified hypotheses, unfolding
    and definitional axioms.  With `selectors` (a list that is filled in) a conjunctive goal c1 & .. & cn is negated as the clauses
    sel_i -> not c_i, so that ONE prepared solver can be asked about each conjunct under the assumption sel_i"""
    g0 = z3.simplify(ob.goal)
    n0 = _sk[0]
    sg = skolemise_goal(g0)
    negs = [z3.Not(sg)]
    if selectors is not None:
        parts = _conjuncts(z3.simplify(sg))
        if len(parts) < 2:
            return None
        negs = []
        for i, c in enumerate(parts):
            _sk[0] += 1
            b = z3.Bool('sel!%d' % _sk[0])
            selectors.append((b, c))
            negs.append(z3.Or(z3.Not(b), z3.Not(c)))
    base = [z3.simplify(f) for f in list(ob.pc)] + negs
    consts = [c for c in _consts_of(sg) if c.decl().name().startswith('sk!') and c.sort() == z3.IntSort()] if ground else []
    if consts:
        consts = consts[:4] + [t for t in _index_terms(sg, consts) if not any(t.eq(c) for c in consts)][:4]
        hyps = []
        for f in base[:len(base) - len(negs)]:
            hyps.extend(f.children() if z3.is_and(f) else [f])
        base = base + _instances(hyps, consts)
    lower = 'no-rmax-lower' not in (ob.hints or [])
    ax = unfold_all(base, fuel, lower)
    dx = def_axioms(base + ax)
    if dx:
        ax = ax + dx + unfold_all(dx, 1, lower)
    return base + ax + uf_axioms(base + ax)


def _conjuncts(g):
    """c1 & .. & cn, also under hypotheses:  P -> (A & B)  gives  P -> A, P -> B"""
    hyp = []
    for _ in range(3):
        if z3.is_implies(g):
            hyp.append(g.arg(0))
            g = g.arg(1)
        elif z3.is_or(g) and g.num_args() == 2 and z3.is_and(g.arg(1)):
            hyp.append(z3.Not(g.arg(0)))
            g = g.arg(1)
        else:
            break
    if not z3.is_and(g):
        return [g] if not hyp else [z3.Implies(z3.And(hyp), g)]
    out = []
    for c in g.children():
        out.extend(c.children() if z3.is_and(c) and not hyp else [c])
    return [z3.Implies(z3.And(hyp), c) for c in out] if hyp else out


def _check(fs, timeout_ms):
    s = z3.Solver()
    s.set('timeout', int(timeout_ms))
    for f in fs:
        s.add(f)
    r = s.check()
    return r, s


def _cli(smt, timeout_ms):
    for name, cmd in (('cvc5-1.0.3', ['/usr/bin/cvc5', '--lang=smt2', '--tlimit=%d' % timeout_ms]),
                      ('z3-4.8.12', ['/usr/bin/z3', '-T:%d' % max(1, timeout_ms // 1000), '-in'])):
        try:
            p = subprocess.run(cmd, input='(set-logic ALL)\n' + smt if 'cvc5' in name else smt,
                               capture_output=True, text=True, timeout=timeout_ms / 1000 + 5)
            out = p.stdout.strip().split('\n')[0] if p.stdout.strip() else ''
        except (subprocess.TimeoutExpired, OSError):
            out = ''
        if out == 'unsat':
            return name
    return None


def _selector_step(ob, g, timeout_ms, use_cli, zv, t0):
    """a conjunctive goal, conjunct by conjunct on ONE prepared solver (selector literals); the few conjuncts that are not decided
    within 3 s go through the full pipeline on their own"""
    try:
        sels = []
        fsel = query_formulas(ob, 1, selectors=sels)
        if fsel is not None and 1 < len(sels) <= 200:
            fsel = normalise(fsel)
            sv = z3.Solver()
            for f in fsel:
                sv.add(f)
            todo = []
            tlim = time.time() + 1.5 * timeout_ms / 1000.0
            for i, (b, c) in enumerate(sels):
                sv.set('timeout', 3000)
                if time.time() > tlim or sv.check(b) != z3.unsat:
                    todo.append(i)
            left = todo
            ok = len(left) <= 8
            if ok:
                import copy
                for i in left:          # the few hard conjuncts: each on its own, with the full pipeline
                    o2 = copy.copy(ob)
                    o2.goal = sels[i][1]
                    if discharge(o2, timeout_ms, use_cli, split=0, prefer_ground=True)['verdict'] != 'proved':
                        ok = False
                        break
            if ok:
                return dict(verdict='proved', backend=zv + '+normalised+sel%d' % len(sels), time=time.time() - t0)
    except z3.Z3Exception:
        pass
    return None


def discharge(ob, timeout_ms=20000, use_cli=True, split=1, prefer_ground=False):
    """dict(verdict, backend, time, ...)   verdict: proved | candidate | unknown"""
    t0 = time.time()
    g = z3.simplify(ob.goal)
    if z3.is_true(g):
        return dict(verdict='proved', backend='syntactic', time=0.0)
    zv = 'z3-' + z3.get_version_string()
    cand = None
    fs1 = query_formulas(ob, 1, ground=False)
    if ob.kind == 'canary':
        # vacuity guard: only a *proof* of False matters; two short attempts
        r, s = _check(fs1, 1500)
        if r == z3.unsat:
            return dict(verdict='proved', backend=zv, time=time.time() - t0)
        try:
            r2, _ = _check(normalise(fs1), 1500)
        except z3.Z3Exception:
            r2 = z3.unknown
        if r2 == z3.unsat:
            return dict(verdict='proved', backend=zv + '+normalised', time=time.time() - t0)
        return dict(verdict='candidate' if r == z3.sat else 'unknown', backend=zv, time=time.time() - t0)
    # 0. goals with many conjuncts (layout specs): selector step first, the joint query would only burn its time limit
    _many = False
    if split:
        try:
            _many = len(_conjuncts(z3.simplify(skolemise_goal(g)))) >= 20
        except z3.Z3Exception:
            _many = False
        if _many:
            try:
                r, _s = _check(normalise(fs1), 3000)        # short joint attempt first
                if r == z3.unsat:
                    return dict(verdict='proved', backend=zv + '+normalised', time=time.time() - t0)
            except z3.Z3Exception:
                pass
            r_ = _selector_step(ob, g, timeout_ms, use_cli, zv, t0)
            if r_ is not None:
                return r_
    # grounded variant (instances of quantified hypotheses at the goal's skolem constants): only if it adds something
    fg1 = query_formulas(ob, 1, ground=True)
    grounded = len(fg1) != len(fs1)
    if prefer_ground and grounded:
        # a quantified conjunct left over by the selector step: the instantiated, normalised query is the one that works
        try:
            r, s2 = _check(normalise(fg1), timeout_ms)
            if r == z3.unsat:
                return dict(verdict='proved', backend=zv + '+normalised+inst', time=time.time() - t0)
        except z3.Z3Exception:
            pass
    # 1. normalised query first: small, lambda-free, pure arithmetic (a weakening: unsat is a proof)
    fsn1 = None
    try:
        fsn1 = normalise(fs1)
        r, s2 = _check(fsn1, 3000 if grounded else max(2000, timeout_ms // 2))
        if r == z3.unsat:
            return dict(verdict='proved', backend=zv + '+normalised', time=time.time() - t0)
    except z3.Z3Exception:
        pass
    # 2. direct query (keeps lambdas / congruence of sum terms)
    r, s = _check(fs1, 2000 if grounded else min(8000, timeout_ms))
    if r == z3.unsat:
        return dict(verdict='proved', backend=zv, time=time.time() - t0)
    if r == z3.sat:
        cand = model_to_dict(s.model(), ob)
    # 2g. the same two queries with the ground instances added
    if grounded:
        try:
            r, s2 = _check(normalise(fg1), max(2000, timeout_ms // 2))
            if r == z3.unsat:
                return dict(verdict='proved', backend=zv + '+normalised+inst', time=time.time() - t0)
        except z3.Z3Exception:
            pass
        r, s = _check(fg1, min(5000, timeout_ms))
        if r == z3.unsat:
            return dict(verdict='proved', backend=zv + '+inst', time=time.time() - t0)
    if split and not _many:
        r_ = _selector_step(ob, g, timeout_ms, use_cli, zv, t0)
        if r_ is not None:
            return r_
    # 2b. a conjunctive goal is proved conjunct by conjunct (each query keeps the whole path condition)
    gs = g
    if split and not z3.is_and(g):
        # forall j. (A and B and ...)  is proved conjunct by conjunct for a fresh j;   P -> (A and B)  as  P -> A, P -> B
        gs = z3.simplify(skolemise_goal(g))
        hyp = []
        for _ in range(3):
            if z3.is_implies(gs):
                hyp.append(gs.arg(0))
                gs = gs.arg(1)
            elif z3.is_or(gs) and gs.num_args() == 2 and z3.is_and(gs.arg(1)):
                hyp.append(z3.Not(gs.arg(0)))
                gs = gs.arg(1)
            else:
                break
        if z3.is_and(gs) and hyp:
            gs = z3.And([z3.Implies(z3.And(hyp), c) for c in gs.children()])
    if split and z3.is_and(gs) and 1 < gs.num_args() <= 64:
        import copy
        parts = []
        for c in gs.children():
            o2 = copy.copy(ob)
            o2.goal = c
            r2 = discharge(o2, timeout_ms, use_cli, split=int(split) - 1)
            if r2['verdict'] != 'proved':
                parts = None
                break
            parts.append(r2['backend'])
        if parts:
            return dict(verdict='proved', backend=sorted(set(parts))[-1] + '+split%d' % len(parts), time=time.time() - t0)
    # 3. more unfolding
    fs2 = query_formulas(ob, 2)
    try:
        fsn2 = normalise(fs2)
        r, s2 = _check(fsn2, timeout_ms)
        if r == z3.unsat:
            return dict(verdict='proved', backend=zv + '+normalised', time=time.time() - t0)
        if r == z3.unknown and use_cli:
            nm = _cli(s2.to_smt2(), timeout_ms)
            if nm:
                return dict(verdict='proved', backend=nm + '+normalised', time=time.time() - t0)
    except z3.Z3Exception:
        pass
    if cand is None:
        r, s = _check(fs2, timeout_ms)
        if r == z3.unsat:
            return dict(verdict='proved', backend=zv, time=time.time() - t0)
        if r == z3.sat:
            cand = model_to_dict(s.model(), ob)
    if cand is not None:
        return dict(verdict='candidate', backend=zv, time=time.time() - t0, model=cand)
    return dict(verdict='unknown', backend=zv, time=time.time() - t0)


def model_to_dict(m, ob):
    """picklable view of a z3 model: scalar constants, and arrays evaluated on [0, len)"""
    out = {}
    try:
        for d in m.decls():
            if d.arity() != 0:
                continue
            v = m[d]
            nm = d.name()
            if z3.is_int_value(v):
                out[nm] = v.as_long()
            elif z3.is_rational_value(v):
                out[nm] = '%s/%s' % (v.numerator_as_long(), v.denominator_as_long())
            elif z3.is_true(v) or z3.is_false(v):
                out[nm] = bool(z3.is_true(v))
        for d in m.decls():
            if d.arity() == 0 and z3.is_array_sort(d.range()):
                nm = d.name()
                n = out.get(nm + '.n')
                if isinstance(n, int) and 0 <= n <= 400:
                    c = d()
                    vals = []
                    for i in range(n):
                        x = m.eval(z3.Select(c, i), model_completion=True)
                        if z3.is_int_value(x):
                            vals.append(x.as_long())
                        elif z3.is_rational_value(x):
                            vals.append('%s/%s' % (x.numerator_as_long(), x.denominator_as_long()))
                        else:
                            vals.append(str(x))
                    out[nm] = vals
    except z3.Z3Exception:
        pass
    return out


# ------------------------------------------------------------------ parallel discharge (fork pool)
_OBS = []
_TMO = 20000


def _work(i):
    try:
        return i, discharge(_OBS[i], _TMO)
    except Exception as e:       # noqa
        return i, dict(verdict='error', backend='z3', time=0.0, error='%s: %s' % (type(e).__name__, e))


def _worker(indices, conn):
    for i in indices:
        conn.send(('start', i))
        conn.send(('done', i, _work(i)[1]))
    conn.send(('end',))
    conn.close()


def discharge_all(obs, timeout_ms=20000, procs=None):
    """discharge obligations in forked worker processes; a worker stuck inside the solver (z3 does not always
    honour its timeout) is killed after a hard limit and the obligation is reported `unknown`"""
    import multiprocessing as mp
    global _OBS, _TMO
    _OBS = obs
    _TMO = timeout_ms
    res = [None] * len(obs)
    todo = []
    for i, o in enumerate(obs):
        if z3.is_true(z3.simplify(o.goal)):
            res[i] = dict(verdict='proved', backend='syntactic', time=0.0)
        else:
            todo.append(i)
    procs = procs or int(os.environ.get('PYVC_PROCS', '0')) or min(16, os.cpu_count() or 4)
    if not todo:
        return res
    if procs <= 1:
        for i in todo:
            res[i] = _work(i)[1]
        return res
    ctx = mp.get_context('fork')
    hard = 4.0 * timeout_ms / 1000.0 + 20.0
    queue = list(todo)
    workers = []        # dict(proc, conn, pending list, current, t0)

    def spawn(batch):
        parent, child = ctx.Pipe(duplex=False)
        p = ctx.Process(target=_worker, args=(batch, child))
        p.daemon = True
        p.start()
        child.close()
        workers.append(dict(p=p, conn=parent, pending=list(batch), cur=None, t0=time.time()))
    nw = min(procs, len(queue))
    per = max(1, min(8, len(queue) // (nw * 3) or 1))
    while queue or workers:
        while queue and len(workers) < nw:
            batch, queue = queue[:per], queue[per:]
            spawn(batch)
        time.sleep(0.01)
        for w in list(workers):
            try:
                while w['conn'].poll():
                    msg = w['conn'].recv()
                    if msg[0] == 'start':
                        w['cur'], w['t0'] = msg[1], time.time()
                    elif msg[0] == 'done':
                        res[msg[1]] = msg[2]
                        if msg[1] in w['pending']:
                            w['pending'].remove(msg[1])
                        w['cur'] = None
                    elif msg[0] == 'end':
                        w['p'].join(1)
                        workers.remove(w)
                        break
            except (EOFError, OSError):
                # worker died: report its current obligation, requeue the rest
                if w in workers:
                    workers.remove(w)
                cur = w['cur']
                if cur is not None and res[cur] is None:
                    res[cur] = dict(verdict='unknown', backend='z3', time=time.time() - w['t0'], error='solver process died')
                queue = [i for i in w['pending'] if res[i] is None and i != cur] + queue
                continue
            if w in workers and w['cur'] is not None and time.time() - w['t0'] > hard:
                w['p'].kill()
                w['p'].join(1)
                workers.remove(w)
                cur = w['cur']
                res[cur] = dict(verdict='unknown', backend='z3', time=time.time() - w['t0'], error='solver unresponsive: killed after %.0fs' % hard)
                queue = [i for i in w['pending'] if res[i] is None and i != cur] + queue
    for i in todo:
        if res[i] is None:
            res[i] = dict(verdict='unknown', backend='z3', time=0.0, error='no result')
    # second pass: open (non-canary) obligations once more with a longer budget and little parallelism, so that a verdict
    # does not flip to `unknown` only because all cores were busy
    if not _retrying[0]:
        again = [i for i in todo if res[i]['verdict'] == 'unknown' and obs[i].kind != 'canary' and 'unresponsive' not in res[i].get('error', '')]
        if again and len(again) <= 40:
            _retrying[0] = True
            try:
                sub = discharge_all([obs[i] for i in again], timeout_ms * 3, procs=4)
            finally:
                _retrying[0] = False
                _OBS = obs
                _TMO = timeout_ms
            for i, r in zip(again, sub):
                if r['verdict'] != 'unknown':
                    r['backend'] = r['backend'] + ' (2nd pass)'
                    res[i] = r
    return res


_retrying = [False]
