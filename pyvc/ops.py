"""Arithmetic / comparison / sequence operations over the mixed value domain.

Semantics assumed (DESIGN 1.2): ints are mathematical integers, floats are
mathematical reals (concrete floats are exact Fractions of the literal as
written), `/` is real division, `//` and `%` are Python floor division and
modulus on ints, `x ** 2` is `x*x`, `x ** 0.5` is the uninterpreted `sqrt`.
"""
from fractions import Fraction
import z3
from .values import (Sym, SChar, SSeq, SSet, SDict, ASet, RandVal, Choice, Obj, ExcVal, Opaque, I, R, B, AI, AR, AB,
                     wrap_elem, arr_sort, is_symbolic)

# uninterpreted real functions
SQRT = z3.Function('sqrt', R, R)
POW10 = z3.Function('pow10', R, R)
LOGB = z3.Function('logb', R, R, R)     # logb(x, base)
EXP = z3.Function('exp', R, R)
LN = z3.Function('ln', R, R)

_card_hook = None   # set by the interpreter: callable(SSet) -> z3 Int cardinality (fresh, constrained)
UF_USED = [False]  # set as soon as one of the uninterpreted real functions is applied (solver front end adds their axioms)


def _uf(f, *a):
    UF_USED[0] = True
    return f(*a)


_aset_ctr = [0]
_hook = None     # set by the interpreter: callable(cond_z3, excname) for implicit exceptions


def set_raise_hook(h):
    global _hook
    _hook = h


def _raise_if(cond, exc):
    if _hook is not None:
        _hook(cond, exc)


def LAM(var, body):
    """lambda with a canonical bound-variable name, so that alpha-equivalent lambdas are one z3 term"""
    J = z3.Int('j')
    return z3.Lambda([J], z3.substitute(body, (var, J)))


class Unsupported(Exception):
    """Operation outside the modelled subset -> the function is 'out of subset'."""


# ---------------------------------------------------------------------------
def is_num(v):
    return isinstance(v, (int, Fraction, bool)) or (isinstance(v, Sym) and v.k in ('int', 'real', 'bool'))


def to_frac(v):
    if isinstance(v, float):
        return Fraction(repr(v))
    return v


def z3int(v):
    if z3.is_expr(v):
        return v
    if isinstance(v, bool):
        return z3.IntVal(1 if v else 0)
    if isinstance(v, int):
        return z3.IntVal(v)
    if isinstance(v, Fraction) and v.denominator == 1:
        return z3.IntVal(v.numerator)
    if isinstance(v, Sym):
        if v.k == 'int':
            return v.e
        if v.k == 'bool':
            return z3.If(v.e, z3.IntVal(1), z3.IntVal(0))
        if v.k == 'real':
            raise Unsupported('real used where an int is required: %r' % (v,))
    if isinstance(v, Choice):
        return collapse(v, 'int').e
    raise Unsupported('not an int: %r' % (v,))


def z3real(v):
    if isinstance(v, bool):
        return z3.RealVal(1 if v else 0)
    if isinstance(v, int):
        return z3.RealVal(v)
    if isinstance(v, Fraction):
        return z3.RealVal(str(v))
    if isinstance(v, float):
        return z3.RealVal(str(Fraction(repr(v))))
    if isinstance(v, Sym):
        if v.k == 'real':
            return v.e
        if v.k == 'int':
            return z3.ToReal(v.e)
        if v.k == 'bool':
            return z3.If(v.e, z3.RealVal(1), z3.RealVal(0))
    if isinstance(v, Choice):
        return collapse(v, 'real').e
    raise Unsupported('not a number: %r' % (v,))


def z3bool(v):
    """truthiness as a z3 Bool"""
    if z3.is_expr(v):
        return v
    if isinstance(v, Sym):
        if v.k == 'bool':
            return v.e
        if v.k == 'int':
            return v.e != 0
        if v.k == 'real':
            return v.e != 0
    if isinstance(v, SSeq):
        return v.n > 0
    if isinstance(v, SChar):
        return z3.BoolVal(True)
    if isinstance(v, Choice):
        return z3.Or([z3.And(c, z3bool(x)) for c, x in v.alts])
    if isinstance(v, SSet):
        if v.card is not None:
            return v.card > 0
        j = z3.Int('j!ne')
        return z3.Exists([j], z3.Select(v.pred, j))
    if isinstance(v, (Obj, Opaque)):
        return z3.BoolVal(True)
    return z3.BoolVal(bool(v))


def kind_of(v):
    if isinstance(v, bool):
        return 'bool'
    if isinstance(v, int):
        return 'int'
    if isinstance(v, (Fraction, float)):
        return 'real'
    if isinstance(v, Sym):
        return v.k
    if isinstance(v, Choice):
        ks = set(kind_of(x) for _, x in v.alts)
        if ks <= {'int', 'bool'}:
            return 'int'
        if ks <= {'int', 'bool', 'real'}:
            return 'real'
        return 'mixed'
    return 'other'


def mk(e, k):
    """wrap a z3 term; fold to a concrete Python value when it is a numeral"""
    e = z3.simplify(e)
    if k == 'int' and z3.is_int_value(e):
        return e.as_long()
    if k == 'real' and z3.is_rational_value(e):
        return Fraction(e.numerator_as_long(), e.denominator_as_long())
    if k == 'bool':
        if z3.is_true(e):
            return True
        if z3.is_false(e):
            return False
    return Sym(e, k)


def collapse(ch, want=None):
    """turn a Choice of numbers / chars into a single If-term"""
    alts = ch.alts
    if not alts:
        raise Unsupported('empty choice')
    k = want or kind_of(ch)
    if all(isinstance(x, SChar) or (isinstance(x, str) and len(x) == 1) for _, x in alts):
        es = [x.e if isinstance(x, SChar) else z3.IntVal(ord(x)) for _, x in alts]
        e = es[-1]
        for (c, _), ee in zip(reversed(alts[:-1]), reversed(es[:-1])):
            e = z3.If(c, ee, e)
        return SChar(z3.simplify(e))
    if k == 'mixed' or k == 'other':
        raise Unsupported('cannot collapse choice of %s' % ([type(x).__name__ for _, x in alts],))
    conv = z3real if k == 'real' else (z3int if k == 'int' else z3bool)
    es = [conv(x) for _, x in alts]
    e = es[-1]
    for (c, _), ee in zip(reversed(alts[:-1]), reversed(es[:-1])):
        e = z3.If(c, ee, e)
    return Sym(z3.simplify(e), k)


def map_choice(ch, f):
    out = []
    for c, v in ch.alts:
        r = f(v)
        if isinstance(r, Choice):
            for c2, v2 in r.alts:
                out.append((z3.And(c, c2), v2))
        else:
            out.append((c, r))
    res = Choice(out)
    k = kind_of(res)
    if k in ('int', 'real', 'bool'):
        return collapse(res, k)
    if all(isinstance(x, SChar) or (isinstance(x, str) and len(x) == 1) for _, x in out):
        return collapse(res)
    return res


# ---------------------------------------------------------------------------
def binop(op, a, b, spec=False):
    a = to_frac(a)
    b = to_frac(b)
    if isinstance(a, Choice) and is_num_choice(a):
        a = collapse(a)
    if isinstance(b, Choice) and is_num_choice(b):
        b = collapse(b)
    if isinstance(a, Choice):
        return map_choice(a, lambda x: binop(op, x, b, spec))
    if isinstance(b, Choice):
        return map_choice(b, lambda x: binop(op, a, x, spec))
    if op in ('-', '/', '//', '**') and (isinstance(a, (str, SChar)) or (isinstance(a, SSeq) and a.kind == 'str') or
                                        isinstance(b, (str, SChar)) or (isinstance(b, SSeq) and b.kind == 'str')):
        _raise_if(True, 'TypeError')        # str - x, x / str ...
    if op == '+' and (isinstance(a, Opaque) or isinstance(b, Opaque)) and \
            all(isinstance(x, (Opaque, str, SChar, SSeq)) for x in (a, b)):
        return Opaque('text')          # concatenation with an unmodelled text (number formatting): some text
    if op == '-' and isinstance(a, Opaque) and isinstance(b, Opaque) and a.what == 'time' and b.what == 'time':
        return Opaque('time')          # difference of two clock readings: some number nobody looks at
    # sequences
    if op == '+' and (is_seq(a) and is_seq(b)):
        return concat(a, b)
    if op == '*' and is_seq(a) and is_num(b):
        return repeat(a, b)
    if op == '*' and is_seq(b) and is_num(a):
        return repeat(b, a)
    if op == '-' and isinstance(a, (SSet, set, frozenset)) and isinstance(b, (SSet, set, frozenset)):
        return set_diff(a, b)
    if op == '%' and isinstance(a, str):
        return fmt_percent(a, b)
    if op == '/' and isinstance(a, SSeq) and a.kind == 'list' and a.ek in ('int', 'real') and is_num(b) and kind_of(b) == 'real':
        a = SSeq(a.arr, a.off, a.n, 'nd', a.ek)        # list / numpy.float64: numpy coerces the list to an array
    if op in ('+', '-', '*', '/') and (_is_vec(a) or _is_vec(b)) and (is_num(a) or is_num(b) or (_is_vec(a) and _is_vec(b))):
        return vec_binop(op, a, b)
    if not (is_num(a) and is_num(b)):
        raise Unsupported('binop %s on %r and %r' % (op, type(a).__name__, type(b).__name__))
    conc = not isinstance(a, Sym) and not isinstance(b, Sym)
    if conc:
        return conc_binop(op, a, b, spec)
    ka, kb = kind_of(a), kind_of(b)
    real = 'real' in (ka, kb)
    if op in '+-*':
        if real:
            x, y = z3real(a), z3real(b)
            return mk({'+': x + y, '-': x - y, '*': x * y}[op], 'real')
        x, y = z3int(a), z3int(b)
        return mk({'+': x + y, '-': x - y, '*': x * y}[op], 'int')
    if op == '/':
        y = z3real(b)
        if not spec:
            _raise_if(y == 0, 'ZeroDivisionError')
        return mk(z3real(a) / y, 'real')
    if op in ('//', '%'):
        if real:
            raise Unsupported('floor division / modulus on reals')
        x, y = z3int(a), z3int(b)
        if not spec:
            _raise_if(y == 0, 'ZeroDivisionError')
        # Python floor semantics; z3 div/mod are Euclidean (agree for y > 0)
        if z3.is_int_value(z3.simplify(y)) and z3.simplify(y).as_long() > 0:
            return mk(x / y if op == '//' else x % y, 'int')
        q = z3.If(y > 0, x / y, z3.If(x % y == 0, x / y, x / y)) if False else None
        # general: floor(x/y)
        fl = z3.ToInt(z3.ToReal(x) / z3.ToReal(y))
        if op == '//':
            return mk(fl, 'int')
        return mk(x - fl * y, 'int')
    if op == '**':
        return power(a, b)
    raise Unsupported('binop ' + op)


PROV = {}       # z3 id of an array term -> how it was built (kept alive by the entry itself)


def _is_vec(v):
    from .interp import RangeVal
    return (isinstance(v, SSeq) and v.kind == 'nd') or isinstance(v, RangeVal)


def vec_binop(op, a, b):
    """numpy broadcasting of a scalar with a 1-D array (or two arrays of equal length): element-wise, reals"""
    from .interp import RangeVal
    from .models import range_to_seq

    def vec(v):
        if isinstance(v, RangeVal):
            v = range_to_seq(v)
        return seq_to_real(v) if v.ek != 'real' else v
    j = z3.Int('j!v')
    if _is_vec(a) and _is_vec(b):
        va, vb = vec(a), vec(b)
        _raise_if(va.n != vb.n, 'ValueError')
        x, y, n = z3.Select(va.arr, j + va.off), z3.Select(vb.arr, j + vb.off), va.n
    elif _is_vec(a):
        va = vec(a)
        x, y, n = z3.Select(va.arr, j + va.off), z3real(b), va.n
    else:
        vb = vec(b)
        x, y, n = z3real(a), z3.Select(vb.arr, j + vb.off), vb.n
    body = {'+': x + y, '-': x - y, '*': x * y, '/': x / y}[op]
    out = SSeq(LAM(j, body), 0, n, 'nd', 'real')
    if op == '-' and _is_vec(a) and not _is_vec(b):
        PROV[out.arr.get_id()] = ('diff', va, y, out.arr)       # provenance: array minus scalar (see models.m_np_argmin)
    return out


def is_num_choice(ch):
    return kind_of(ch) in ('int', 'real', 'bool')


def conc_binop(op, a, b, spec=False):
    if op == '+':
        return a + b
    if op == '-':
        return a - b
    if op == '*':
        return a * b
    if op == '/':
        if b == 0:
            if spec:
                return Fraction(0)
            _raise_if(True, 'ZeroDivisionError')
        return Fraction(a) / Fraction(b)
    if op == '//':
        if b == 0:
            _raise_if(True, 'ZeroDivisionError')
        return a // b
    if op == '%':
        if b == 0:
            _raise_if(True, 'ZeroDivisionError')
        return a % b
    if op == '**':
        return power(a, b)
    raise Unsupported('binop ' + op)


def power(a, b):
    b = to_frac(b)
    if isinstance(b, Fraction) and b.denominator == 1:
        b = b.numerator
    if isinstance(b, int) and not isinstance(b, bool) and 0 <= b <= 8:
        if not isinstance(a, Sym):
            return a ** b
        if b == 0:
            return 1
        r = a
        for _ in range(b - 1):
            r = binop('*', r, a)
        return r
    if b == Fraction(1, 2):
        return mk(_uf(SQRT, z3real(a)), 'real')
    if not isinstance(a, Sym) and not isinstance(b, Sym) and isinstance(b, int):
        return Fraction(a) ** b
    raise Unsupported('power %r ** %r' % (a, b))


def absval(a):
    if isinstance(a, Choice):
        a = collapse(a)
    if isinstance(a, Sym):
        if a.k == 'real':
            return mk(z3.If(a.e >= 0, a.e, -a.e), 'real')
        x = z3int(a)
        return mk(z3.If(x >= 0, x, -x), 'int')
    if isinstance(a, SSeq) and a.kind == 'nd' and a.ek in ('int', 'real'):
        j = z3.Int('j!abs')      # numpy: element-wise absolute value
        x = z3.Select(a.arr, j + a.off)
        out = SSeq(LAM(j, z3.If(x >= 0, x, -x)), 0, a.n, 'nd', a.ek)
        pv = PROV.get(a.arr.get_id())
        if pv is not None and pv[0] == 'diff' and z3.is_int_value(z3.simplify(a.off)) and z3.simplify(a.off).as_long() == 0:
            PROV[out.arr.get_id()] = ('absdiff', pv[1], pv[2], out.arr)
        return out
    return abs(a)


def neg(a):
    return binop('-', 0, a)


# ---------------------------------------------------------------------------
def char_code(v):
    """z3 Int code of a one-character string value, or None"""
    if isinstance(v, SChar):
        return v.e
    if isinstance(v, str) and len(v) == 1:
        return z3.IntVal(ord(v))
    if isinstance(v, Choice):
        if all(isinstance(x, SChar) or (isinstance(x, str) and len(x) == 1) for _, x in v.alts):
            c = collapse(v)
            if isinstance(c, SChar):
                return c.e
    return None


def length(v):
    if isinstance(v, SSeq):
        return mk(v.n, 'int')
    if isinstance(v, SChar):
        return 1
    if isinstance(v, ASet):
        return mk(v.card, 'int')
    if isinstance(v, SSet):
        if v.card is None:
            if _card_hook is None:
                raise Unsupported('len of symbolic set without cardinality')
            v.card = _card_hook(v)
        return mk(v.card, 'int')
    if isinstance(v, Choice):
        return map_choice(v, length)
    if isinstance(v, Obj) or isinstance(v, Opaque):
        raise Unsupported('len of %r' % (v,))
    return len(v)


def is_seq(v):
    return isinstance(v, (SSeq, SChar, str, list, tuple))


def elem_kind_of_value(x):
    if isinstance(x, SChar) or (isinstance(x, str) and len(x) == 1):
        return 'char'
    k = kind_of(x)
    if k in ('int', 'real', 'bool'):
        return k
    return None


def to_sseq(v, kind=None):
    """convert a concrete / char value to SSeq (needed when mixing with symbolic)"""
    if isinstance(v, SSeq):
        return v
    if isinstance(v, SChar):
        return SSeq(z3.K(I, v.e), 0, 1, 'str', 'char')
    if isinstance(v, str):
        arr = z3.K(I, z3.IntVal(0))
        for i, ch in enumerate(v):
            arr = z3.Store(arr, i, ord(ch))
        return SSeq(arr, 0, len(v), 'str', 'char')
    if isinstance(v, (list, tuple)):
        kd = kind or ('list' if isinstance(v, list) else 'tuple')
        eks = set(elem_kind_of_value(x) for x in v)
        if None in eks:
            raise Unsupported('cannot make symbolic sequence of %r' % (v,))
        if not eks:
            ek = 'int'
        elif eks == {'char'}:
            ek = 'char'
        elif 'char' in eks:
            raise Unsupported('mixed char/number list')
        elif 'real' in eks:
            ek = 'real'
        else:
            ek = 'int'
        if ek == 'real':
            arr = z3.K(I, z3.RealVal(0))
            for i, x in enumerate(v):
                arr = z3.Store(arr, i, z3real(x))
        elif ek == 'char':
            arr = z3.K(I, z3.IntVal(0))
            for i, x in enumerate(v):
                arr = z3.Store(arr, i, char_code(x))
        else:
            arr = z3.K(I, z3.IntVal(0))
            for i, x in enumerate(v):
                arr = z3.Store(arr, i, z3int(x))
        return SSeq(arr, 0, len(v), kd, ek)
    raise Unsupported('to_sseq(%r)' % (v,))


def _coerce_pair(a, b):
    """make element kinds of two SSeq agree (int -> real promotion)"""
    if a.ek == b.ek:
        return a, b
    nums = ('int', 'real', 'bool')
    if a.ek in nums and b.ek in nums:
        return seq_to_real(a), seq_to_real(b)
    # empty sequences adopt the other kind
    if z3.is_int_value(z3.simplify(a.n)) and z3.simplify(a.n).as_long() == 0:
        return SSeq(z3.K(I, _zero(b.ek)), 0, 0, a.kind, b.ek), b
    if z3.is_int_value(z3.simplify(b.n)) and z3.simplify(b.n).as_long() == 0:
        return a, SSeq(z3.K(I, _zero(a.ek)), 0, 0, b.kind, a.ek)
    raise Unsupported('sequence element kinds %s vs %s' % (a.ek, b.ek))


def _zero(ek):
    return z3.RealVal(0) if ek == 'real' else (z3.BoolVal(False) if ek == 'bool' else z3.IntVal(0))


def seq_to_real(s):
    if s.ek == 'real':
        return s
    j = z3.Int('j!r')
    if s.ek == 'int':
        arr = LAM(j, z3.ToReal(z3.Select(s.arr, j)))
    elif s.ek == 'bool':
        arr = LAM(j, z3.If(z3.Select(s.arr, j), z3.RealVal(1), z3.RealVal(0)))
    else:
        raise Unsupported('char sequence to real')
    return SSeq(arr, s.off, s.n, s.kind, 'real')


def concat(a, b):
    if not is_symbolic(a) and not is_symbolic(b) and all(not _has_sym(x) for x in (a, b)):
        return a + b
    if isinstance(a, (list, tuple)) and isinstance(b, (list, tuple)):
        return a + b        # concrete containers of (possibly symbolic) values
    kind = 'str' if isinstance(a, (str, SChar)) or (isinstance(a, SSeq) and a.kind == 'str') else (
        a.kind if isinstance(a, SSeq) else ('list' if isinstance(a, list) else 'tuple'))
    if isinstance(a, SSeq) and a.kind == 'nd':
        raise Unsupported('ndarray + ndarray is element-wise')
    sa, sb = to_sseq(a), to_sseq(b)
    sa, sb = _coerce_pair(sa, sb)
    j = z3.Int('j!c')
    # x + p1 + p2 + ... with pieces of concrete length: ONE case split between x and a small array holding all the pieces
    # (instead of one nested if-then-else per piece)
    nb = z3.simplify(sb.n)
    if z3.is_int_value(nb) and nb.as_long() <= 64 and sa.ek == sb.ek:
        elems = [z3.simplify(z3.Select(sb.arr, sb.off + i)) for i in range(nb.as_long())]
        base, tail = sa, []
        reg = _CONCAT_TAIL.get(sa.arr.get_id())
        if reg is not None and reg[0].eq(sa.arr) and z3.is_int_value(z3.simplify(sa.off)) and z3.simplify(sa.off).as_long() == 0 \
                and z3.simplify(sa.n - (reg[1].n + len(reg[2]))).eq(z3.IntVal(0)):
            base, tail = reg[1], list(reg[2])
        tail = tail + elems
        tarr = z3.K(I, elems[0] if elems else z3.IntVal(0)) if sa.ek in ('char', 'int') else None
        if tarr is not None:
            for i, e in enumerate(tail):
                tarr = z3.Store(tarr, i, e)
            arr = LAM(j, z3.If(j < base.n, z3.Select(base.arr, j + base.off), z3.Select(tarr, j - base.n)))
            out = SSeq(arr, 0, z3.simplify(base.n + len(tail)), kind, sa.ek)
            _CONCAT_TAIL[arr.get_id()] = (arr, base, tail)
            return out
    arr = LAM(j, z3.If(j < sa.n, z3.Select(sa.arr, j + sa.off), z3.Select(sb.arr, j - sa.n + sb.off)))
    return SSeq(arr, 0, z3.simplify(sa.n + sb.n), kind, sa.ek)


_CONCAT_TAIL = {}


def _has_sym(v):
    if is_symbolic(v):
        return True
    if isinstance(v, (list, tuple)):
        return any(_has_sym(x) for x in v)
    return False


def repeat(s, k):
    if not is_symbolic(s) and not isinstance(k, Sym) and not _has_sym(s):
        return s * k
    kk = z3int(k)
    if isinstance(s, (list, tuple)) and not isinstance(k, Sym):
        return s * k
    if isinstance(s, (str, SChar)) and length(s) == 1 or (isinstance(s, (list, tuple)) and len(s) == 1):
        # c * k : constant sequence of length max(k,0)
        if isinstance(s, (str, SChar)):
            code = char_code(s)
            return SSeq(z3.K(I, code), 0, z3.simplify(z3.If(kk > 0, kk, 0)), 'str', 'char')
        x = s[0]
        ek = elem_kind_of_value(x)
        if ek == 'real':
            arr = z3.K(I, z3real(x))
        elif ek in ('int', 'bool'):
            arr = z3.K(I, z3int(x))
            ek = 'int'
        elif ek == 'char':
            arr = z3.K(I, char_code(x))
        else:
            raise Unsupported('repeat of %r' % (s,))
        return SSeq(arr, 0, z3.simplify(z3.If(kk > 0, kk, 0)), 'list' if isinstance(s, list) else 'tuple', ek)
    raise Unsupported('repeat of multi-element sequence a symbolic number of times')


def slice_seq(s, lo, hi):
    """Python slice s[lo:hi] with clamping semantics (no step)"""
    if isinstance(s, (str, list, tuple)) and not isinstance(lo, Sym) and not isinstance(hi, Sym):
        return s[lo:hi]
    ss = to_sseq(s)
    n = ss.n

    def norm(x, default):
        if x is None:
            return default
        e = z3int(x)
        e = z3.If(e < 0, z3.If(e + n < 0, 0, e + n), z3.If(e > n, n, e))
        return e
    l = norm(lo, z3.IntVal(0))
    h = norm(hi, n)
    ln = z3.simplify(z3.If(h >= l, h - l, 0))
    return SSeq(ss.arr, z3.simplify(ss.off + l), ln, ss.kind, ss.ek)


def index_seq(s, i):
    """s[i] with Python semantics (negative index, IndexError)"""
    if isinstance(s, SChar):
        s = to_sseq(s)
    if isinstance(s, (str, list, tuple)):
        if isinstance(i, (Sym, Choice)):
            if isinstance(s, str) or all(elem_kind_of_value(x) for x in s):
                return index_seq(to_sseq(s), i)
            # concrete list of arbitrary values, symbolic index
            ii = z3int(i)
            n = len(s)
            _raise_if(z3.Or(ii >= n, ii < -n), 'IndexError')
            alts = []
            for k, x in enumerate(s):
                alts.append((z3.Or(ii == k, ii == k - n), x))
            return map_choice(Choice(alts), lambda x: x)
        if isinstance(i, Fraction):
            raise Unsupported('non-integer index')
        n = len(s)
        if i >= n or i < -n:
            _raise_if(True, 'IndexError')
            return '\0' if isinstance(s, str) else 0      # spec mode: reads are total (the value is never relied upon)
        return s[i]
    if isinstance(s, SSeq):
        ii = z3int(i)
        _raise_if(z3.Or(ii >= s.n, ii < -s.n), 'IndexError')
        idx = z3.simplify(z3.If(ii < 0, ii + s.n, ii))
        return s.at(idx)
    raise Unsupported('index into %r' % (s,))


def store_seq(s, i, v):
    """functional update s[i] = v (returns the new sequence)"""
    ss = to_sseq(s)
    ii = z3int(i)
    _raise_if(z3.Or(ii >= ss.n, ii < -ss.n), 'IndexError')
    idx = z3.simplify(z3.If(ii < 0, ii + ss.n, ii) + ss.off)
    ek = ss.ek
    if ek == 'char':
        val = char_code(v)
        if val is None:
            raise Unsupported('storing non-char into char list')
    elif ek == 'real':
        val = z3real(v)
    else:
        if kind_of(v) == 'real':
            ss = seq_to_real(ss)
            val = z3real(v)
        else:
            val = z3int(v)
    return SSeq(z3.Store(ss.arr, idx, val), ss.off, ss.n, ss.kind, ss.ek)


def append_seq(s, v):
    ek = elem_kind_of_value(v)
    if isinstance(s, list) and not (is_symbolic(v) and False):
        return s + [v]
    ss = to_sseq(s)
    if ek is None:
        raise Unsupported('append of %r to symbolic sequence' % (v,))
    one = to_sseq([v] if ek != 'char' else [v])
    one = SSeq(one.arr, one.off, one.n, ss.kind, one.ek)
    ss2, one2 = _coerce_pair(ss, one)
    idx = z3.simplify(ss2.off + ss2.n)
    val = z3.Select(one2.arr, one2.off)
    return SSeq(z3.Store(ss2.arr, idx, val), ss2.off, z3.simplify(ss2.n + 1), ss2.kind, ss2.ek)


# ---------------------------------------------------------------------------
def compare(op, a, b):
    a = to_frac(a)
    b = to_frac(b)
    if op in ('==', '!=') and isinstance(b, Choice) and not isinstance(a, Choice):
        a, b = b, a
    if op in ('==', '!=') and isinstance(a, Choice) and isinstance(b, (str, int, bool, type(None))) and not isinstance(b, Fraction) \
            and all(isinstance(v, (str, type(None))) for _, v in a.alts):
        # a guarded union of concrete strings against a concrete value: the disjunction of the guards of the equal alternatives
        # (the guards of a Choice are exhaustive and mutually exclusive)
        hit = [c for c, v in a.alts if v == b]
        e = z3.simplify(z3.Or(hit)) if hit else z3.BoolVal(False)
        r = mk(e, 'bool')
        return lnot(r) if op == '!=' else r
    if isinstance(a, Choice) and not is_num_choice(a) and char_code(a) is None:
        r = map_choice(a, lambda x: compare(op, x, b))
        return r
    if isinstance(b, Choice) and not is_num_choice(b) and char_code(b) is None:
        return map_choice(b, lambda x: compare(op, a, x))
    if isinstance(a, Choice):
        a = collapse(a)
    if isinstance(b, Choice):
        b = collapse(b)
    if op == '!=' and isinstance(a, SSeq) and a.kind == 'nd' and is_num(b):
        return nd_compare('!=', a, b)
    if op in ('==', '!='):
        r = equal(a, b)
        if op == '!=':
            return lnot(r)
        return r
    if is_num(a) and is_num(b):
        if not isinstance(a, Sym) and not isinstance(b, Sym):
            return {'<': a < b, '<=': a <= b, '>': a > b, '>=': a >= b}[op]
        if 'real' in (kind_of(a), kind_of(b)):
            x, y = z3real(a), z3real(b)
        else:
            x, y = z3int(a), z3int(b)
        return mk({'<': x < y, '<=': x <= y, '>': x > y, '>=': x >= y}[op], 'bool')
    if isinstance(a, SSeq) and a.kind == 'nd' and is_num(b):
        return nd_compare(op, a, b)
    raise Unsupported('compare %s on %r, %r' % (op, type(a).__name__, type(b).__name__))


def nd_compare(op, a, b):
    """element-wise comparison of an ndarray with a scalar -> bool ndarray"""
    j = z3.Int('j!w')
    x = z3.Select(a.arr, j)          # offset kept: sums over the result stay sums over the base array
    if a.ek == 'real' or kind_of(b) == 'real':
        x = z3.ToReal(x) if a.ek != 'real' else x
        y = z3real(b)
    else:
        y = z3int(b)
    c = {'<': x < y, '<=': x <= y, '>': x > y, '>=': x >= y, '==': x == y, '!=': x != y}[op]
    return SSeq(LAM(j, c), a.off, a.n, 'nd', 'bool')


def equal(a, b):
    """Python == as a value (Python bool or Sym bool)"""
    if (isinstance(a, Choice) and not is_num_choice(a) and char_code(a) is None) or \
            (isinstance(b, Choice) and not is_num_choice(b) and char_code(b) is None):
        return compare('==', a, b)
    if a is None or b is None:
        if is_symbolic(a) or is_symbolic(b):
            return False
        return a is b
    if is_num(a) and is_num(b):
        if not isinstance(a, Sym) and not isinstance(b, Sym):
            return a == b
        if 'real' in (kind_of(a), kind_of(b)):
            return mk(z3real(a) == z3real(b), 'bool')
        return mk(z3int(a) == z3int(b), 'bool')
    ca, cb = char_code(a), char_code(b)
    if ca is not None and cb is not None:
        return mk(ca == cb, 'bool')
    if isinstance(a, SSeq) and a.kind == 'nd' and is_num(b):
        return nd_compare('==', a, b)
    if (isinstance(a, (SSeq, SChar)) or isinstance(b, (SSeq, SChar))) and is_seq(a) and is_seq(b):
        if isinstance(a, (list, tuple)) and len(a) == 0:
            return mk(to_sseq(b).n == 0, 'bool')
        if isinstance(b, (list, tuple)) and len(b) == 0:
            return mk(to_sseq(a).n == 0, 'bool')
        sa, sb = to_sseq(a), to_sseq(b)
        if sa.ek != sb.ek:
            sa, sb = _coerce_pair(sa, sb)
        j = z3.Int('j!e')
        return mk(z3.And(sa.n == sb.n,
                         z3.ForAll([j], z3.Implies(z3.And(j >= 0, j < sa.n),
                                                   z3.Select(sa.arr, j + sa.off) == z3.Select(sb.arr, j + sb.off)))), 'bool')
    if isinstance(a, dict) and isinstance(b, dict):
        if set(a.keys()) != set(b.keys()):
            return False
        acc = True
        for k in a:
            acc = land(acc, compare('==', a[k], b[k]))
        return acc
    if isinstance(a, SSet) and isinstance(b, SSet):
        j = z3.Int('j!se')
        return mk(z3.ForAll([j], z3.Select(a.pred, j) == z3.Select(b.pred, j)), 'bool')
    if is_symbolic(a) or is_symbolic(b):
        if (is_num(a) and not is_num(b)) or (is_num(b) and not is_num(a)):
            return False
        if (ca is not None) != (cb is not None):
            # a one-char string against something that is not a one-char string
            other = b if ca is not None else a
            if isinstance(other, str) or other is None or is_num(other):
                return False
        raise Unsupported('equality of %r and %r' % (a, b))
    return a == b


def land(a, b):
    if not isinstance(a, Sym) and not z3.is_expr(a):
        return b if a else a
    if not isinstance(b, Sym) and not z3.is_expr(b):
        return a if b else False
    return mk(z3.And(z3bool(a), z3bool(b)), 'bool')


def lor(a, b):
    if not isinstance(a, Sym) and not z3.is_expr(a):
        return a if a else b
    if not isinstance(b, Sym) and not z3.is_expr(b):
        return True if b else a
    return mk(z3.Or(z3bool(a), z3bool(b)), 'bool')


def lnot(a):
    if isinstance(a, (Sym, SSeq, Choice, SSet)):
        return mk(z3.Not(z3bool(a)), 'bool')
    return not a


def contains(container, x):
    """x in container -> Python bool or Sym bool"""
    if isinstance(container, Choice):
        return map_choice(container, lambda c: contains(c, x))
    if isinstance(container, (list, tuple, set, frozenset)) or isinstance(container, type({}.keys())):
        items = list(container)
        if not is_symbolic(x) and not any(is_symbolic(i) for i in items):
            return x in container
        res = False
        for it in items:
            res = lor(res, compare('==', x, it) if isinstance(x, Choice) or isinstance(it, Choice) else equal(x, it))
        return res
    if isinstance(container, dict):
        return contains(list(container.keys()), x)
    if isinstance(container, str):
        cx = char_code(x)
        if cx is None:
            if isinstance(x, str):
                return x in container
            raise Unsupported('substring test with symbolic operand')
        if not is_symbolic(x):
            return x in container
        return mk(z3.Or([cx == ord(c) for c in container]) if container else z3.BoolVal(False), 'bool')
    if isinstance(container, ASet):
        _aset_ctr[0] += 1
        return Sym(z3.Bool('in_aset!%d' % _aset_ctr[0]), 'bool')
    if isinstance(container, SDict):
        return mk(z3.Select(container.dom, z3int(x)), 'bool')
    if isinstance(container, SSet):
        cx = char_code(x) if container.ek == 'char' else z3int(x)
        if cx is None:
            return False
        return mk(z3.Select(container.pred, cx), 'bool')
    if isinstance(container, SSeq):
        cx = char_code(x) if container.ek == 'char' else (z3real(x) if container.ek == 'real' else z3int(x))
        if cx is None:
            return False
        j = z3.Int('j!in')
        return mk(z3.Exists([j], z3.And(j >= 0, j < container.n, z3.Select(container.arr, j + container.off) == cx)), 'bool')
    raise Unsupported('membership in %r' % (container,))


def set_diff(a, b):
    if isinstance(a, (set, frozenset)) and isinstance(b, (set, frozenset)):
        if not any(is_symbolic(x) for x in a) and not any(is_symbolic(x) for x in b):
            return a - b
    sa, sb = to_sset(a), to_sset(b)
    j = z3.Int('j!s')
    pred = LAM(j, z3.And(z3.Select(sa.pred, j), z3.Not(z3.Select(sb.pred, j))))
    r = SSet(pred, sa.ek, None)
    rng_ = getattr(sa, 'src', None)
    if isinstance(rng_, tuple) and rng_[0] == 'range':
        from .speclib import SumI
        # inside [lo,hi) membership in the range-set is true, so the count is over "not in b" alone
        r.card = SumI(LAM(j, z3.If(z3.Not(z3.Select(sb.pred, j)), z3.IntVal(1), z3.IntVal(0))), rng_[1], rng_[2])
        r.src = rng_
    return r


def to_sset(s, ek='int'):
    if isinstance(s, SSet):
        return s
    if isinstance(s, (set, frozenset, list, tuple)):
        j = z3.Int('j!s')
        items = list(s)
        if not items:
            return SSet(z3.K(I, z3.BoolVal(False)), ek, z3.IntVal(0))
        if all(char_code(x) is not None for x in items):
            body = z3.Or([j == char_code(x) for x in items])
            return SSet(LAM(j, body), 'char', None)
        body = z3.Or([j == z3int(x) for x in items])
        return SSet(LAM(j, body), 'int', None)
    raise Unsupported('to_sset(%r)' % (s,))


def fmt_percent(fmt, args):
    """'...%s...' % args with only %s directives and string arguments of which one is symbolic: the concatenation of the
    literal pieces and the arguments.  Anything else (number formatting in messages): only the fact that it is *some* string matters"""
    tup = args if isinstance(args, tuple) else (args,)
    parts = fmt.split('%s')
    if len(parts) - 1 == len(tup) and '%' not in ''.join(parts) and all(isinstance(a, (str, SChar, SSeq)) for a in tup) and \
            any(isinstance(a, (SChar, SSeq)) for a in tup) and all(not isinstance(a, SSeq) or a.kind == 'str' for a in tup):
        out = parts[0]
        for a, lit in zip(tup, parts[1:]):
            out = a if (isinstance(out, str) and out == '') else concat(out, a)
            if lit:
                out = concat(out, lit)
        return out
    return Opaque('formatted-string')


def ite(c, a, b):
    """spec-level if-then-else (dual mode)"""
    if isinstance(c, Sym) or z3.is_expr(c):
        cc = z3bool(c)
        if is_num(a) and is_num(b):
            if 'real' in (kind_of(a), kind_of(b)):
                return mk(z3.If(cc, z3real(a), z3real(b)), 'real')
            if kind_of(a) == 'bool' and kind_of(b) == 'bool':
                return mk(z3.If(cc, z3bool(a), z3bool(b)), 'bool')
            return mk(z3.If(cc, z3int(a), z3int(b)), 'int')
        ca, cb = char_code(a), char_code(b)
        if ca is not None and cb is not None:
            return SChar(z3.simplify(z3.If(cc, ca, cb)))
        if isinstance(a, SSeq) and isinstance(b, SSeq) and a.ek == b.ek:
            return SSeq(z3.If(cc, a.arr, b.arr), z3.If(cc, a.off, b.off), z3.If(cc, a.n, b.n), a.kind, a.ek)
        return Choice([(cc, a), (z3.Not(cc), b)])
    return a if c else b
