"""Contracts as data, the per-function VC driver, and contract application at call sites.

A contract is a dict:
  params   {name: type}            types: int nat real bool char str list[..] nd[..] optional[..] opaque
  self     callable(interp, case) -> Obj   (builds a symbolic receiver satisfying the class invariant)
  cases    [ {param overrides / ghost settings} ... ]     (dynamic types, cache states, default-arg states)
  requires [expr...]               assumed at entry, proved at call sites
  ensures  [expr...]               over params, self, result, old(...)
  raises   [(ExcName, cond)]       exceptional exit of class ExcName happens exactly when cond (at entry)
  may_raise [(ExcName, cond)]      allowed but not required
  modifies [field...]              fields of self that may change (everything else is proved unchanged)
  returns  type                    result type when no `result == X` clause exists (call sites)
  lemmas   [expr...]               lemma instances (proved separately) added at entry
  exit_lemmas [expr...]            added before the postcondition check (may mention result)
Loop specs live in LOOPS[key][ordinal] = dict(index=, invariant=[...], types={...}, variant=, lemmas=[...]).
"""
import ast
import time
import z3

from . import ops
from .ops import Unsupported
from .interp import (Interp, Frame, PathEnd, NeedChoice, Restart, Returned, Raised, BreakEx, ContinueEx)
from .values import Sym, SChar, SSeq, SSet, Choice, Obj, ExcVal, Opaque, is_symbolic


class FunctionReport:
    def __init__(self, key):
        self.key = key
        self.obligations = []
        self.out_of_subset = []
        self.paths = 0
        self.time = 0.0
        self.sha = None
        self.implicit_safe = 0


def exc_matches(exc, name, ns):
    if exc.cls is None:
        return False
    for k in exc.cls.__mro__:
        if k.__name__ == name:
            return True
    return False


def snapshot_obj(o, depth=0):
    c = Obj(o.cls, (o.name or '') + '@old')
    c.fields = dict(o.fields)
    for k, v in list(c.fields.items()):
        if isinstance(v, list):
            c.fields[k] = list(v)
        elif isinstance(v, dict):
            c.fields[k] = dict(v)
        elif isinstance(v, Obj) and depth < 2:
            c.fields[k] = snapshot_obj(v, depth + 1)
    return c


def make_oldcall(interp):
    def oldcall(text):
        fr = interp._old_frames[-1]
        node = interp.parse_spec(text)
        interp.in_spec += 1
        try:
            return interp.eval(node, fr)
        finally:
            interp.in_spec -= 1
    return oldcall


# --------------------------------------------------------------------------- top-level verification of one function
def verify_function(interp, key, contract, max_paths=4000):
    interp.cur_top_contract_key = key
    fi = interp.sb.func(key)
    rep = FunctionReport(key)
    rep.sha = fi.sha
    t0 = time.time()
    interp.top_key = key
    import os as _os
    interp.deadline = t0 + float(_os.environ.get('PYVC_GEN_BUDGET', '400'))
    interp.spec_alias = {}
    interp._renamed = {}
    cases = contract.get('cases') or [{}]
    from . import solve as _solve
    _solve.USE_CONE[0] = bool(contract.get('feas_cone'))
    for ci, case in enumerate(cases):
        restarts = 0
        while True:
            obs = []
            scripts = [[]]
            restart = False
            npaths = 0
            while scripts:
                script = scripts.pop()
                interp.obligations = []
                if _os.environ.get('PYVC_TRACE'):
                    print('[trace] %.1fs paths=%d pending=%d script=%s' % (time.time() - t0, npaths, len(scripts), script), flush=True)
                try:
                    run_path(interp, fi, contract, case, ci, script)
                    obs.extend(interp.obligations)
                    npaths += 1
                except NeedChoice as nc:
                    for i in reversed(range(nc.n)):
                        scripts.append(script + [i])
                except PathEnd:
                    obs.extend(interp.obligations)
                    npaths += 1
                except Restart:
                    restart = True
                    break
                except Unsupported as u:
                    rep.out_of_subset.append('case %d path %s: %s' % (ci, script, u))
                    obs.extend(interp.obligations)
                if npaths > max_paths:
                    rep.out_of_subset.append('case %d: more than %d paths' % (ci, max_paths))
                    break
            if restart:
                restarts += 1
                if restarts <= 40:
                    continue
                # never accept the obligations of an aborted enumeration
                obs = []
                rep.out_of_subset.append('case %d: type promotion did not stabilise after %d restarts' % (ci, restarts))
            break
        rep.paths += npaths
        for o in obs:
            if len(cases) > 1:
                o.name = '%s[case%d]' % (o.name, ci)
        rep.obligations.extend(obs)
    rep.implicit_safe = interp.implicit_safe
    rep.time = time.time() - t0
    return rep


def build_params(interp, fi, contract, case):
    env = {}
    ptypes = dict(contract.get('params', {}))
    ptypes.update(case.get('params', {}))
    argnames = [a.arg for a in fi.node.args.args]
    selfobj = None
    for n in argnames:
        if n == 'self' and fi.cls is not None:
            mk = case.get('self') or contract.get('self')
            if mk is None:
                raise Unsupported('contract of %s has no self builder' % fi.key)
            selfobj = mk(interp, case)
            env[n] = selfobj
            continue
        ty = ptypes.get(n)
        if ty is None:
            back = {c: o for o, c in interp.renamed(fi).items()}
            ty = ptypes.get(back.get(n))        # the parameter was renamed since the pinned tree
        if ty is None:
            raise Unsupported('contract of %s gives no type for parameter %s' % (fi.key, n))
        if callable(ty):
            env[n] = ty(interp, case)
        elif isinstance(ty, tuple) and ty[0] == 'const':
            env[n] = ty[1]
        else:
            env[n] = interp.fresh_typed(n, ty)
    return env, selfobj


def run_path(interp, fi, contract, case, ci, script):
    interp.reset(script)
    interp.depth = 0
    interp.hints = []
    interp._old_frames = []
    interp.spec_env['__oldcall__'] = make_oldcall(interp)
    env, selfobj = build_params(interp, fi, contract, case)
    fr0 = Frame(fi, dict(env), spec=False)
    # old state
    oldenv = dict(env)
    if selfobj is not None:
        oldenv['self'] = snapshot_obj(selfobj)
    for k, v in list(oldenv.items()):
        if isinstance(v, list):
            oldenv[k] = list(v)
    oldfr = Frame(fi, oldenv, spec=True)
    interp._old_frames.append(oldfr)
    for r in contract.get('requires', []) + case.get('requires', []):
        v = interp.eval_spec(r, fr0)
        interp.assume(ops.z3bool(v) if is_symbolic(v) else bool(v))
    interp.frames.append(fr0)
    interp.assume_lemmas(contract.get('lemmas', []), fr0)
    interp.frames.pop()
    raise_conds = []
    for (en, cond) in contract.get('raises', []):
        raise_conds.append((en, interp.eval_spec(cond, fr0), True))
    for (en, cond) in contract.get('may_raise', []):
        raise_conds.append((en, interp.eval_spec(cond, fr0), False))
    args = [env[a.arg] for a in fi.node.args.args]
    key = fi.key
    line = fi.node.lineno
    try:
        result = interp.inline(fi, args, {})
    except Raised as r:
        interp.frames = []
        allowed = [c for (en, c, _) in raise_conds if exc_matches(r.exc, en, fi.module.ns)]
        cname = r.exc.cls.__name__ if r.exc.cls else 'Exception'
        if allowed:
            goal = z3.Or([ops.z3bool(c) if is_symbolic(c) else z3.BoolVal(bool(c)) for c in allowed])
        else:
            goal = z3.BoolVal(False)
        interp.oblige('%s.raises.%s@L%d' % (key, cname, interp.cur_line), goal, 'raises', interp.cur_line,
                      note='exceptional exit %s must be allowed by the contract' % cname)
        check_frame(interp, fi, contract, selfobj, oldenv, exceptional=True)
        return
    interp.frames = []
    # normal exit: none of the must-raise conditions may hold
    for (en, c, must) in raise_conds:
        if must:
            g = ops.lnot(c)
            interp.oblige('%s.noraise.%s' % (key, en), g, 'raises', line,
                          note='returned normally, so the condition for %s must be false' % en)
    fr1 = Frame(fi, dict(env), spec=True)
    fr1.env['result'] = result
    interp.frames.append(fr1)
    interp.assume_lemmas(contract.get('exit_lemmas', []), fr1)
    interp.frames.pop()
    for i, e in enumerate(contract.get('ensures', []) + case.get('ensures', [])):
        try:
            v = interp.eval_spec(e, fr1)
        except Exception as ex:      # noqa
            if type(ex).__name__ != 'MissingWitness':
                raise
            v = False                # the witness the postcondition refers to does not exist on this path
        hints = (contract.get('post_lemmas') or {}).get(e)
        if hints:
            # lemma instances needed by this clause only (kept out of the other clauses' queries)
            npc = len(interp.pc)
            interp.frames.append(fr1)
            interp.assume_lemmas(hints, fr1)
            interp.frames.pop()
            interp.oblige('%s.post%d' % (key, i), v, 'post', line, note=e)
            del interp.pc[npc:]
            continue
        interp.oblige('%s.post%d' % (key, i), v, 'post', line, note=e)
    # vacuity canary: `False` at a reachable normal exit must NOT be provable
    interp.oblige('%s.canary' % key, z3.BoolVal(False), 'canary', line, note='must not be provable (vacuity guard)')
    check_frame(interp, fi, contract, selfobj, oldenv, exceptional=False)


def values_equal(a, b):
    """z3 Bool / Python bool: two stored values are the same"""
    if a is b:
        return True
    if isinstance(a, SSeq) and isinstance(b, SSeq):
        if a.arr.eq(b.arr) and a.off.eq(b.off) and a.n.eq(b.n):
            return True
        r = ops.equal(a, b)
        return ops.z3bool(r) if is_symbolic(r) else r
    if isinstance(a, (Sym, SChar)) and isinstance(b, (Sym, SChar)):
        if a.e.eq(b.e):
            return True
    if isinstance(a, Choice) and isinstance(b, Choice) and len(a.alts) == len(b.alts):
        conj = []
        for (c1, v1), (c2, v2) in zip(a.alts, b.alts):
            conj.append(c1 == c2)
            if v1 is None and v2 is None:
                continue
            ve = values_equal(v1, v2)
            conj.append(z3.Implies(c1, ve if z3.is_expr(ve) else z3.BoolVal(bool(ve))))
        return z3.And(conj)
    if isinstance(a, Choice) or isinstance(b, Choice):
        # optional against a plain value
        ch, other = (a, b) if isinstance(a, Choice) else (b, a)
        conj = []
        for c, v in ch.alts:
            ve = values_equal(v, other) if not (v is None or other is None) else (v is other)
            conj.append(z3.Implies(c, ve if z3.is_expr(ve) else z3.BoolVal(bool(ve))))
        return z3.And(conj)
    if isinstance(a, dict) and isinstance(b, dict):
        if a.keys() != b.keys():
            return False
        conj = []
        for k in a:
            ve = values_equal(a[k], b[k])
            if ve is True:
                continue
            conj.append(ve if z3.is_expr(ve) else z3.BoolVal(bool(ve)))
        return z3.And(conj) if conj else True
    if isinstance(a, list) and isinstance(b, list):
        if len(a) != len(b):
            return False
        conj = []
        for x, y in zip(a, b):
            ve = values_equal(x, y)
            if ve is True:
                continue
            conj.append(ve if z3.is_expr(ve) else z3.BoolVal(bool(ve)))
        return z3.And(conj) if conj else True
    try:
        r = ops.equal(a, b)
    except Unsupported:
        return a is b
    return ops.z3bool(r) if is_symbolic(r) else r


def check_frame(interp, fi, contract, selfobj, oldenv, exceptional):
    if selfobj is None:
        return
    mods = set(contract.get('modifies', []))
    if exceptional:
        mods = set(contract.get('modifies_on_raise', contract.get('modifies', [])))
    old = oldenv['self']

    def walk(oldo, newo, prefix):
        for f in sorted(set(oldo.fields) | set(newo.fields)):
            name = prefix + f
            if name in mods:
                continue
            if f not in newo.fields or f not in oldo.fields:
                g = False
            elif isinstance(oldo.fields[f], Obj) and isinstance(newo.fields[f], Obj) and oldo.fields[f].cls is newo.fields[f].cls:
                walk(oldo.fields[f], newo.fields[f], name + '.')
                continue
            else:
                g = values_equal(oldo.fields[f], newo.fields[f])
            interp.oblige('%s.frame.%s%s' % (fi.key, name, '.onraise' if exceptional else ''), g, 'frame', fi.node.lineno,
                          note='field %s is not in the modifies clause and must be unchanged' % name)
    walk(old, selfobj, '')


# --------------------------------------------------------------------------- contract application at a call site
def apply_contract(interp, fi, c, args, kwargs, fr, node):
    interp.contract_used.add(fi.key)
    if c.get('trusted'):
        interp.trusted_used.add('assumed (unverified) contract of ' + fi.key)
    env = interp.bind_params(fi, args, kwargs)
    # several contracts for one function: pick the variant whose guard holds for these arguments
    for guard, vkey in c.get('dispatch', []):
        gfr = Frame(fi, dict(env), spec=True)
        gv = interp.eval_spec(guard, gfr)
        if is_symbolic(gv):
            # a guard that depends on symbolic state: case split (both contracts describe the same function on disjoint inputs)
            gz = ops.z3bool(gv)
            ft, ff = interp.feasible(gz), interp.feasible(z3.Not(gz))
            take = (interp.choose(2) == 0) if (ft and ff) else ft
            interp.assume(gz if take else z3.Not(gz))
            gv = take
        if gv:
            c = interp.contracts[vkey]
            interp.contract_used.add(vkey)
            if c.get('trusted'):
                interp.trusted_used.add('assumed (unverified) contract of ' + vkey)
            break
    selfobj = env.get('self') if fi.cls is not None else None
    line = getattr(node, 'lineno', interp.cur_line)
    caller = fr.fi.key if fr.fi is not None else interp.top_key
    cfr = Frame(fi, dict(env), spec=True)
    # constructor on a fresh object: fields do not exist yet
    is_ctor = fi.qualname.endswith('.__init__')
    oldenv = dict(env)
    if isinstance(selfobj, Obj):
        oldenv['self'] = snapshot_obj(selfobj)
    # lemma instances the CALLER's contract asks to be brought in right before this call (evaluated in the caller's frame)
    top = interp.contracts.get(interp.cur_top_contract_key or '', {})
    hints = (top.get('call_lemmas') or {}).get(fi.qualname)
    if hints and fr is not None and not fr.spec:
        if callable(hints):
            hints = hints(interp, fr, getattr(node, 'lineno', interp.cur_line))
        interp.assume_lemmas(hints, fr)
    interp._old_frames.append(Frame(fi, oldenv, spec=True))
    interp.ghost_frames.append({g: interp.fresh_typed('ghost.' + g, ty) for g, ty in c.get('ghost_locals', {}).items()})
    if fr is not None and not fr.spec:
        # the callee's ghost witnesses stay visible to the caller's own postcondition as local("ghost_<name>")
        for g, v in interp.ghost_frames[-1].items():
            fr.env['ghost_' + g] = v
    try:
        for i, r in enumerate(c.get('requires', [])):
            if is_ctor and r.startswith('INV'):
                continue
            v = interp.eval_spec(r, cfr)
            interp.oblige('%s.call.%s.pre%d@L%d' % (caller, fi.qualname, i, line), v, 'callpre', line, note=r)
            interp.assume(ops.z3bool(v) if is_symbolic(v) else bool(v))
        alts = []
        norm = []
        for (en, cond) in c.get('raises', []):
            cv = interp.eval_spec(cond, cfr)
            cz = ops.z3bool(cv) if is_symbolic(cv) else z3.BoolVal(bool(cv))
            cz = z3.simplify(cz)
            norm.append(z3.Not(cz))
            if z3.is_false(cz):
                continue
            if interp.feasible(cz):
                alts.append((en, cz))
        for (en, cond) in c.get('may_raise', []):
            cv = interp.eval_spec(cond, cfr)
            cz = z3.simplify(ops.z3bool(cv) if is_symbolic(cv) else z3.BoolVal(bool(cv)))
            if not z3.is_false(cz) and interp.feasible(cz):
                alts.append((en, cz))
        normal_ok = interp.feasible(z3.And(norm)) if norm else True
        n = len(alts) + (1 if normal_ok else 0)
        if n == 0:
            raise PathEnd('no outcome of callee contract feasible')
        k = interp.choose(n)
        if k < len(alts):
            en, cz = alts[k]
            interp.assume(cz)
            cls = fi.module.ns.get(en) or interp.exc_classes.get(en)
            if cls is None:
                import builtins
                cls = getattr(builtins, en)
            raise Raised(ExcVal(cls, ()))
        for nz in norm:
            interp.assume(nz)
        # frame: havoc modified fields
        ftypes = c.get('field_types', {})
        if isinstance(selfobj, Obj):
            for f in c.get('modifies', []):
                if f in selfobj.fields or f in ftypes:
                    selfobj.fields[f] = interp.fresh_like(selfobj.fields.get(f), '%s.%s' % (fi.qualname, f), ftypes.get(f))
        result = None
        have_result = False
        pending = []
        ens = c.get('ensures', [])
        if is_ctor and c.get('ctor_build') and isinstance(selfobj, Obj):
            c['ctor_build'](interp, cfr.env, selfobj)
        if is_ctor and c.get('ctor_fields') and isinstance(selfobj, Obj):
            # constructor: the new object's fields are given constructively (the ensures clauses are
            # what the constructor's own verification proves about exactly these values)
            for f, ty in c.get('ctor_fresh', {}).items():
                selfobj.fields[f] = interp.fresh_typed('%s.%s' % (selfobj.name or 'obj', f), ty)
            for f, ex in c['ctor_fields'].items():
                selfobj.fields[f] = eval_rhs(interp, interp.parse_spec(ex), cfr)
            for f, clsname in c.get('ctor_objects', {'ComplexityObject': 'SequenceComplexity'}).items():
                pc_ = fi.module.ns.get(clsname)
                if pc_ is not None:
                    selfobj.fields[f] = Obj(pc_, f)
            ens = c.get('ensures', []) if c.get('ctor_assume_ensures') else []
        for e in ens:
            nd = interp.parse_spec(e)
            if isinstance(nd, ast.Compare) and len(nd.ops) == 1 and isinstance(nd.ops[0], ast.Eq):
                l = nd.left
                if isinstance(l, ast.Name) and l.id == 'result' and not have_result:
                    result = eval_rhs(interp, nd.comparators[0], cfr)
                    have_result = True
                    cfr.env['result'] = result
                    continue
                if isinstance(l, ast.Attribute) and isinstance(l.value, ast.Name) and l.value.id == 'self' and \
                        isinstance(selfobj, Obj) and (is_ctor or l.attr in c.get('modifies', [])) and \
                        not _mentions(nd.comparators[0], 'self', l.attr) and \
                        (have_result or not any(isinstance(x, ast.Name) and x.id == 'result' for x in ast.walk(nd.comparators[0]))):
                    selfobj.fields[l.attr] = eval_rhs(interp, nd.comparators[0], cfr)
                    continue
            pending.append(e)
        if not have_result and callable(c.get('returns')):
            result = c['returns'](interp, cfr.env)
            cfr.env['result'] = result
        elif not have_result and c.get('returns'):
            result = interp.fresh_typed(fi.qualname.split('.')[-1], c['returns'])
            cfr.env['result'] = result
        elif not have_result:
            cfr.env['result'] = None
        for e in pending:
            v = interp.eval_spec(e, cfr)
            interp.assume(ops.z3bool(v) if is_symbolic(v) else bool(v))
        # clauses a caller may rely on although the function's own verification does NOT prove them: listed as assumptions
        for e in c.get('assumed_ensures', []):
            interp.trusted_used.add('ASSUMED at call sites of %s (not proved for the function): %s' % (fi.key, e))
            v = interp.eval_spec(e, cfr)
            interp.assume(ops.z3bool(v) if is_symbolic(v) else bool(v))
        return result
    finally:
        interp._old_frames.pop()
        interp.ghost_frames.pop()


def _mentions(node, objname, attr):
    for n in ast.walk(node):
        if isinstance(n, ast.Attribute) and n.attr == attr and isinstance(n.value, ast.Name) and n.value.id == objname:
            # old(self.f) is fine
            return False
    return False


def eval_rhs(interp, node, cfr):
    interp.in_spec += 1
    try:
        return interp.eval(node, cfr)
    finally:
        interp.in_spec -= 1
