"""Inductive lemmas over the spec vocabulary.

A lemma is  forall <params>. requires -> claim  proved by induction on one integer
parameter `ind` from a base value: two VCs (base, step) over fresh symbolic parameters,
each discharged with the defining equations of the sums unfolded.  Instances are then
*used* (assumed) where a contract lists them under `lemmas`.
"""
import z3
from . import ops
from .interp import Obligation, Frame
from .values import is_symbolic


class Lemma:
    def __init__(self, name, params, claim, ind, base, requires=(), uses=()):
        self.name = name
        self.params = params        # ordered {name: type}
        self.claim = claim          # expression text
        self.ind = ind              # induction variable
        self.base = base            # expression text of the base value of ind
        self.requires = list(requires)
        self.uses = list(uses)      # other lemma instances (expression texts) usable in the step

    def instance(self, interp, args):
        """the formula requires -> claim at the given argument values"""
        env = dict(zip(self.params.keys(), args))
        fr = Frame(None, env, spec=True, ns={})
        pre = [interp.eval_spec(r, fr) for r in self.requires]
        cl = interp.eval_spec(self.claim, fr)
        prez = [ops.z3bool(p) if is_symbolic(p) else z3.BoolVal(bool(p)) for p in pre]
        clz = ops.z3bool(cl) if is_symbolic(cl) else z3.BoolVal(bool(cl))
        return ops.mk(z3.Implies(z3.And(prez), clz) if prez else clz, 'bool')

    def proof_obligations(self, interp):
        obs = []
        for phase in ('base', 'step'):
            interp.reset([])
            env = {}
            for p, ty in self.params.items():
                env[p] = interp.fresh_typed(p, ty)
            fr = Frame(None, env, spec=True, ns={})
            basev = interp.eval_spec(self.base, fr)
            n = env[self.ind]
            if phase == 'base':
                interp.assume(ops.z3bool(ops.compare('<=', n, basev)) if True else None)
                for r in self.requires:
                    v = interp.eval_spec(r, fr)
                    interp.assume(ops.z3bool(v) if is_symbolic(v) else bool(v))
                goal = interp.eval_spec(self.claim, fr)
            else:
                interp.assume(ops.z3bool(ops.compare('>=', n, basev)))
                # induction hypothesis at n (with its requires), goal at n+1
                hyp_pre = [interp.eval_spec(r, fr) for r in self.requires]
                hyp = interp.eval_spec(self.claim, fr)
                hp = [ops.z3bool(p) if is_symbolic(p) else z3.BoolVal(bool(p)) for p in hyp_pre]
                interp.assume(z3.Implies(z3.And(hp), ops.z3bool(hyp)) if hp else ops.z3bool(hyp))
                env2 = dict(env)
                env2[self.ind] = ops.binop('+', n, 1)
                fr2 = Frame(None, env2, spec=True, ns={})
                for r in self.requires:
                    v = interp.eval_spec(r, fr2)
                    interp.assume(ops.z3bool(v) if is_symbolic(v) else bool(v))
                for u in self.uses:
                    v = interp.eval_spec(u, fr2)
                    interp.assume(ops.z3bool(v) if is_symbolic(v) else bool(v))
                goal = interp.eval_spec(self.claim, fr2)
            g = ops.z3bool(goal) if is_symbolic(goal) else z3.BoolVal(bool(goal))
            obs.append(Obligation('lemma.%s.%s' % (self.name, phase), list(interp.pc), g, 'lemma', 'lemma:' + self.name,
                                  0, [], (), self.claim))
        return obs
