"""Inductive lemmas over the spec vocabulary.

A lemma is  forall <params>. requires -> claim  proved by induction on one integer
parameter `ind` from a base value: two VCs (base, step) over fresh symbolic parameters,
each discharged with the defining equations of the sums unfolded.  Instances are then
*used* (assumed) where a contract lists them under `lemmas`.
"""
import z3
from . import ops
from .interp import Obligation, Frame
from .values import is_symbolic


class LemmaInstance:
    """use of a lemma: `pre` is proved where the lemma is invoked (an obligation), then `claim` is assumed"""

    def __init__(self, name, pre, claim):
        self.name, self.pre, self.claim = name, pre, claim


class Lemma:
    def __init__(self, name, params, claim, ind, base, requires=(), uses=()):
        self.name = name
        self.params = params        # ordered {name: type}
        self.claim = claim          # expression text
        self.ind = ind              # induction variable
        self.base = base            # expression text of the base value of ind
        self.requires = list(requires)
        self.uses = list(uses)      # other lemma instances (expression texts) usable in the step

    def instance(self, interp, args):
        """the formula requires -> claim at the given argument values"""
        env = dict(zip(self.params.keys(), args))
        fr = Frame(None, env, spec=True, ns={})
        pre = [interp.eval_spec(r, fr) for r in self.requires]
        cl = interp.eval_spec(self.claim, fr)
        prez = [ops.z3bool(p) if is_symbolic(p) else z3.BoolVal(bool(p)) for p in pre]
        clz = ops.z3bool(cl) if is_symbolic(cl) else z3.BoolVal(bool(cl))
        # an implication claim  H -> C  is split: H joins the hypotheses to be proved at the point of use
        if z3.is_implies(clz):
            prez.append(clz.arg(0))
            clz = clz.arg(1)
        return LemmaInstance(self.name, z3.And(prez) if prez else z3.BoolVal(True), clz)

    def proof_obligations(self, interp):
        obs = []
        if self.ind is None:
            # direct theorem over the contracts/lemmas: requires /\ used lemma instances |- claim
            interp.reset([])
            env = {p: interp.fresh_typed(p, ty) for p, ty in self.params.items()}
            fr = Frame(None, env, spec=True, ns={})
            for r in self.requires:
                v = interp.eval_spec(r, fr)
                interp.assume(ops.z3bool(v) if is_symbolic(v) else bool(v))
            for u in self.uses:
                v = interp.eval_spec(u, fr)
                if isinstance(v, LemmaInstance):
                    pre = z3.simplify(v.pre)
                    if not z3.is_true(pre):
                        obs.append(Obligation('lemma.%s.use.%s.pre' % (self.name, v.name), list(interp.pc), pre, 'lemma', 'lemma:' + self.name, 0, [], (), u))
                        interp.assume(pre)
                    interp.assume(v.claim)
                else:
                    interp.assume(ops.z3bool(v) if is_symbolic(v) else bool(v))
            goal = interp.eval_spec(self.claim, fr)
            g = ops.z3bool(goal) if is_symbolic(goal) else z3.BoolVal(bool(goal))
            obs.append(Obligation('lemma.%s.direct' % self.name, list(interp.pc), g, 'lemma', 'lemma:' + self.name, 0, [], (), self.claim))
            return obs
        for phase in ('base', 'step'):
            interp.reset([])
            env = {}
            for p, ty in self.params.items():
                env[p] = interp.fresh_typed(p, ty)
            fr = Frame(None, env, spec=True, ns={})
            basev = interp.eval_spec(self.base, fr)
            n = env[self.ind]
            if phase == 'base':
                interp.assume(ops.z3bool(ops.compare('<=', n, basev)) if True else None)
                for r in self.requires:
                    v = interp.eval_spec(r, fr)
                    interp.assume(ops.z3bool(v) if is_symbolic(v) else bool(v))
                goal = interp.eval_spec(self.claim, fr)
            else:
                interp.assume(ops.z3bool(ops.compare('>=', n, basev)))
                # induction hypothesis at n (with its requires), goal at n+1
                hyp_pre = [interp.eval_spec(r, fr) for r in self.requires]
                hyp = interp.eval_spec(self.claim, fr)
                hp = [ops.z3bool(p) if is_symbolic(p) else z3.BoolVal(bool(p)) for p in hyp_pre]
                interp.assume(z3.Implies(z3.And(hp), ops.z3bool(hyp)) if hp else ops.z3bool(hyp))
                env2 = dict(env)
                env2[self.ind] = ops.binop('+', n, 1)
                fr2 = Frame(None, env2, spec=True, ns={})
                for r in self.requires:
                    v = interp.eval_spec(r, fr2)
                    interp.assume(ops.z3bool(v) if is_symbolic(v) else bool(v))
                for u in self.uses:
                    v = interp.eval_spec(u, fr2)
                    if isinstance(v, LemmaInstance):
                        interp.assume(z3.Implies(v.pre, v.claim))
                    else:
                        interp.assume(ops.z3bool(v) if is_symbolic(v) else bool(v))
                goal = interp.eval_spec(self.claim, fr2)
            g = ops.z3bool(goal) if is_symbolic(goal) else z3.BoolVal(bool(goal))
            obs.append(Obligation('lemma.%s.%s' % (self.name, phase), list(interp.pc), g, 'lemma', 'lemma:' + self.name,
                                  0, ['no-rmax-lower'] if self.name == 'rmax_lower' else [], (), self.claim))
        return obs
