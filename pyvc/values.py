"""Value domain of the symbolic executor.

Concrete Python values (int, Fraction, bool, None, str, list, tuple, dict,
set, native sandbox objects) are used as they are.  Symbolic values:

  Sym    scalar z3 term of kind 'int' | 'real' | 'bool'
  SChar  a one-character string whose code point is a z3 Int
  SSeq   finite sequence: (array, offset, length) with element kind
         'char' | 'int' | 'real' | 'bool'; flavour 'str' | 'list' | 'nd' | 'tuple'
  SSet   set of ints / chars given by a membership predicate (Array Int Bool)
  Choice guarded union of values (symbolic key into a concrete table)
  Obj    instance of an interpreted class, fields held in a dict
  ExcVal an interpreted exception instance
"""
from fractions import Fraction
import z3

I = z3.IntSort()
R = z3.RealSort()
B = z3.BoolSort()
AI = z3.ArraySort(I, I)
AR = z3.ArraySort(I, R)
AB = z3.ArraySort(I, B)


class Sym:
    __slots__ = ('e', 'k')

    def __init__(self, e, k):
        self.e = e
        self.k = k

    def __repr__(self):
        return 'Sym<%s:%s>' % (self.k, self.e)

    __hash__ = object.__hash__

    # operator overloading so that spec functions can be written as plain Python
    def __add__(self, o): from . import ops; return ops.binop('+', self, o)
    def __radd__(self, o): from . import ops; return ops.binop('+', o, self)
    def __sub__(self, o): from . import ops; return ops.binop('-', self, o)
    def __rsub__(self, o): from . import ops; return ops.binop('-', o, self)
    def __mul__(self, o): from . import ops; return ops.binop('*', self, o)
    def __rmul__(self, o): from . import ops; return ops.binop('*', o, self)
    def __truediv__(self, o): from . import ops; return ops.binop('/', self, o, spec=True)
    def __rtruediv__(self, o): from . import ops; return ops.binop('/', o, self, spec=True)
    def __floordiv__(self, o): from . import ops; return ops.binop('//', self, o, spec=True)
    def __rfloordiv__(self, o): from . import ops; return ops.binop('//', o, self, spec=True)
    def __mod__(self, o): from . import ops; return ops.binop('%', self, o, spec=True)
    def __pow__(self, o): from . import ops; return ops.binop('**', self, o, spec=True)
    def __neg__(self): from . import ops; return ops.binop('-', 0, self)
    def __abs__(self): from . import ops; return ops.absval(self)
    def __eq__(self, o): from . import ops; return ops.compare('==', self, o)
    def __ne__(self, o): from . import ops; return ops.compare('!=', self, o)
    def __lt__(self, o): from . import ops; return ops.compare('<', self, o)
    def __le__(self, o): from . import ops; return ops.compare('<=', self, o)
    def __gt__(self, o): from . import ops; return ops.compare('>', self, o)
    def __ge__(self, o): from . import ops; return ops.compare('>=', self, o)
    def __and__(self, o): from . import ops; return ops.land(self, o)
    def __rand__(self, o): from . import ops; return ops.land(o, self)
    def __or__(self, o): from . import ops; return ops.lor(self, o)
    def __ror__(self, o): from . import ops; return ops.lor(o, self)
    def __invert__(self): from . import ops; return ops.lnot(self)

    def __bool__(self):
        raise TypeError('symbolic value used as a Python bool: %r' % (self,))


class SChar:
    __slots__ = ('e',)

    def __init__(self, e):
        self.e = e

    def __repr__(self):
        return 'SChar<%s>' % (self.e,)

    __hash__ = object.__hash__

    def __eq__(self, o): from . import ops; return ops.compare('==', self, o)
    def __ne__(self, o): from . import ops; return ops.compare('!=', self, o)


class SSeq:
    __slots__ = ('arr', 'off', 'n', 'kind', 'ek')

    def __init__(self, arr, off, n, kind, ek):
        self.arr = arr
        self.off = off if z3.is_expr(off) else z3.IntVal(off)
        self.n = n if z3.is_expr(n) else z3.IntVal(n)
        self.kind = kind
        self.ek = ek

    def __repr__(self):
        return 'SSeq<%s/%s n=%s>' % (self.kind, self.ek, self.n)

    def at(self, i):
        """element at z3/py int index i (no bounds check)"""
        ii = i if z3.is_expr(i) else z3.IntVal(i)
        e = z3.Select(self.arr, z3.simplify(self.off + ii))
        return wrap_elem(e, self.ek)

    def __getitem__(self, i):          # spec use: total, no exception
        from . import ops
        if isinstance(i, slice):
            return ops.slice_seq(self, i.start, i.stop)
        return self.at(ops.z3int(i))

    def __len__(self):
        raise TypeError('use length(x) in specs for symbolic sequences')


class SSet:
    __slots__ = ('pred', 'ek', 'card', 'src')

    def __init__(self, pred, ek, card=None, src=None):
        self.pred = pred    # Array Int Bool
        self.ek = ek
        self.card = card    # z3 Int or None
        self.src = src      # the sequence the set was built from (set(list)), if any

    def __repr__(self):
        return 'SSet<%s>' % self.ek


class Choice:
    __slots__ = ('alts',)

    def __init__(self, alts):
        self.alts = alts    # list of (z3 Bool, value)

    def __repr__(self):
        return 'Choice<%d>' % len(self.alts)

    __hash__ = object.__hash__

    def __eq__(self, o): from . import ops; return ops.compare('==', self, o)
    def __ne__(self, o): from . import ops; return ops.compare('!=', self, o)


class SDict:
    """dictionary with symbolic integer keys: (domain predicate, value array); built by d[k] = v in loops"""
    __slots__ = ('dom', 'vals', 'ek')

    def __init__(self, dom, vals, ek):
        self.dom, self.vals, self.ek = dom, vals, ek

    def __repr__(self):
        return 'SDict<%s>' % self.ek


class ASet:
    """set of items the executor does not model (strings): only its cardinality is tracked
    (membership tests return a fresh boolean; add() increases the cardinality by 0 or 1)"""
    __slots__ = ('card',)

    def __init__(self, card):
        self.card = card

    def __repr__(self):
        return 'ASet'


class RandVal:
    """a random.Random() instance: every method returns a fresh value constrained by the library contract"""

    def __repr__(self):
        return 'RandVal'


class Obj:
    def __init__(self, cls, name=None):
        self.cls = cls          # sandbox python class
        self.fields = {}
        self.name = name

    def __repr__(self):
        return 'Obj<%s %s>' % (self.cls.__name__, self.name or hex(id(self)))


class ExcVal:
    def __init__(self, cls, args=()):
        self.cls = cls          # python exception class
        self.args = args

    def __repr__(self):
        return 'ExcVal<%s>' % self.cls.__name__


class Opaque:
    """Something the executor does not model (only passed around)."""

    def __init__(self, what):
        self.what = what

    def __repr__(self):
        return 'Opaque<%s>' % self.what


def wrap_elem(e, ek):
    if ek == 'char':
        return SChar(e)
    if ek == 'int':
        return Sym(e, 'int')
    if ek == 'real':
        return Sym(e, 'real')
    if ek == 'bool':
        return Sym(e, 'bool')
    raise ValueError(ek)


def arr_sort(ek):
    return {'char': AI, 'int': AI, 'real': AR, 'bool': AB}[ek]


def is_symbolic(v):
    return isinstance(v, (Sym, SChar, SSeq, SSet, Choice, SDict, ASet))
