"""/verif/check <ID> [--tier quick|thorough] [--replay file] [--update-ledger]

exit 0  property held on everything explored (every obligation discharged, native bounded check clean,
        only listed known findings)
exit 1  VIOLATION property=<id> replay=<path>
exit 2  UNDECIDED (an obligation that used to be proved is now open and nothing refutes it)
exit 3  checker problem (vacuity guard, canary, crash)
"""
import argparse
import json
import os
import subprocess
import sys
import time

HERE = os.path.dirname(os.path.dirname(os.path.abspath(__file__)))
sys.path.insert(0, HERE)
REPO = os.environ.get('REPO', '/repo')
NATIVE_PY = os.environ.get('NATIVE_PY', '/venv/bin/python')


def load_known():
    p = os.path.join(HERE, 'known_findings.json')
    if not os.path.exists(p):
        return []
    return json.load(open(p))


def start_native(pid, tier, seed, evd=None):
    out = os.path.join(evd or os.path.join(HERE, 'evidence'), '%s.native.tmp' % pid)
    os.makedirs(os.path.dirname(out), exist_ok=True)
    if os.path.exists(out):
        os.remove(out)
    env = dict(os.environ)
    env['PYTHONPATH'] = REPO + os.pathsep + HERE
    env['MPLBACKEND'] = 'Agg'
    env.setdefault('LOCALCIDER_VERIF', '1')
    p = subprocess.Popen([NATIVE_PY, '-W', 'ignore', '-m', 'native.run', pid, '--tier', tier, '--seed', str(seed), '--out', out],
                         cwd=HERE, env=env, stdout=subprocess.PIPE, stderr=subprocess.PIPE, text=True)
    return p, out, time.time()


def finish_native(h):
    p, out, t0 = h
    so, se = p.communicate()
    if p.returncode != 0 or not os.path.exists(out):
        return None, 'native harness failed (exit %s): %s' % (p.returncode, (se or '')[-1500:])
    d = json.load(open(out))
    os.remove(out)
    d['wall_s'] = time.time() - t0
    return d, None


def lean_status(fname, force=False):
    import hashlib
    src = os.path.join(HERE, 'lemmas', fname)
    stamp = os.path.join(HERE, 'lemmas', '.' + fname + '.ok')
    h = hashlib.sha256(open(src, 'rb').read()).hexdigest()
    if not force and os.path.exists(stamp) and open(stamp).read().strip() == h:
        return True, 'lean-4.33 (compiled by setup, source hash matches)', 0.0
    t0 = time.time()
    try:
        p = subprocess.run(['lean', src], capture_output=True, text=True, timeout=1500)
        ok = p.returncode == 0 and 'error' not in (p.stdout + p.stderr).lower() and 'sorry' not in (p.stdout + p.stderr).lower()
    except (subprocess.TimeoutExpired, OSError):
        ok = False
    if ok:
        open(stamp, 'w').write(h)
    return ok, 'lean-4.33', time.time() - t0


def tree_sha(repo):
    """hash of the library sources (tests excluded): tells a changed tree from the pinned one the ledger was recorded on"""
    import hashlib
    h = hashlib.sha256()
    root = os.path.join(repo, 'localcider')
    for d, dirs, files in sorted(os.walk(root)):
        dirs.sort()
        if os.sep + 'tests' in d:
            continue
        for f in sorted(files):
            if f.endswith('.py'):
                h.update(os.path.relpath(os.path.join(d, f), repo).encode())
                h.update(open(os.path.join(d, f), 'rb').read())
    return h.hexdigest()[:16]


def main():
    ap = argparse.ArgumentParser()
    ap.add_argument('prop')
    ap.add_argument('--tier', default=os.environ.get('VERIF_TIER', 'quick'))
    ap.add_argument('--replay')
    ap.add_argument('--update-ledger', action='store_true')
    ap.add_argument('--no-native', action='store_true')
    ap.add_argument('--evidence-dir', help='write evidence/replays elsewhere (self-test on scratch copies)')
    a = ap.parse_args()
    pid = a.prop
    seed = int(os.environ.get('VERIF_SEED', '0') or 0)
    tier = a.tier if a.tier in ('quick', 'thorough') else 'quick'
    from checker.props import PROPS, COMMON_TRUSTED, COMMON_DROPPED
    if pid not in PROPS:
        print('unknown property', pid)
        sys.exit(3)
    cfg = PROPS[pid]
    if a.replay:
        env = dict(os.environ)
        env['PYTHONPATH'] = REPO + os.pathsep + HERE
        env['MPLBACKEND'] = 'Agg'
        p = subprocess.run([NATIVE_PY, '-W', 'ignore', '-m', 'native.run', '--replay', a.replay], cwd=HERE, env=env)
        sys.exit(p.returncode)
    t0 = time.time()
    EVD = a.evidence_dir or os.path.join(HERE, 'evidence')
    RPD = a.evidence_dir or os.path.join(HERE, 'replays')
    os.makedirs(EVD, exist_ok=True)
    os.makedirs(RPD, exist_ok=True)
    problems = []       # exit 3
    nat_handle = None
    if cfg.get('native') and not a.no_native:
        nat_handle = start_native(pid, tier, seed, a.evidence_dir)
    # ------------------------------------------------------------ deductive part
    ded = dict(obligations=0, discharged=0, by_backend={}, solver_time=0.0, functions=[], failed=[], canaries=0,
               out_of_subset=[], samples=[], gen_time=0.0)
    ledger_path = os.path.join(HERE, 'contracts', 'ledger.json')
    ledger = json.load(open(ledger_path)) if os.path.exists(ledger_path) else {}
    led = ledger.get(pid, {})
    results = []
    if cfg.get('functions') or cfg.get('lemmas'):
        try:
            from pyvc.driver import Verifier
            v = Verifier(REPO)
            v.interp.pinned_locals = ledger.get('__locals__', {})
            tmo = 20000 if tier == 'quick' else 60000
            results, reports, tg = v.run(list(cfg.get('functions', [])) + (list(cfg.get('thorough_functions', [])) if tier == 'thorough' else []),
                                         cfg.get('lemmas', []), timeout_ms=tmo, extra=cfg.get('extra', []))
            ded['gen_time'] = tg
            for r in reports:
                ded['functions'].append(dict(function=r.key, source_sha=r.sha, paths=r.paths, seconds=round(r.time, 2)))
                for o in r.out_of_subset:
                    ded['out_of_subset'].append('%s: %s' % (r.key, o))
            ded['inlined'] = sorted(v.interp.inlined)
            ded['contracts_used_at_call_sites'] = sorted(v.interp.contract_used)
            ded['trusted_models_used'] = sorted(v.interp.trusted_used)
            ded['dropped'] = sorted(v.interp.dropped)
        except Exception as e:      # noqa
            import traceback
            problems.append('verifier crashed: ' + traceback.format_exc()[-1500:])
    # Lean lemmas under the contracts (facts about reals / finite sets that SMT cannot prove): compiled by setup.sh,
    # re-checked here when the stamp is missing or stale, always re-checked in the thorough tier
    for (lf, thm) in cfg.get('lean', []):
        ok, how, secs = lean_status(lf, force=(tier == 'thorough'))
        results.append(dict(name='lean.%s.%s' % (lf, thm), func='lean:' + lf, kind='lean', line=0, note='theorem %s in /verif/lemmas/%s' % (thm, lf), path=[],
                            verdict='proved' if ok else 'unknown', backend=how, time=secs))
    # canaries / counts
    canary_by_func = {}
    names = {}
    for d in results:
        if d['kind'] == 'canary':
            canary_by_func.setdefault(d['func'], []).append(d['verdict'])
            ded['canaries'] += 1
            continue
        ded['obligations'] += 1
        ded['solver_time'] += d.get('time', 0.0)
        nm = d['name']
        names.setdefault(nm, []).append(d['verdict'])
        if d['verdict'] == 'proved':
            ded['discharged'] += 1
            ded['by_backend'][d['backend']] = ded['by_backend'].get(d['backend'], 0) + 1
        else:
            ded['failed'].append(dict(obligation=nm, verdict=d['verdict'], backend=d.get('backend'), line=d.get('line'), kind=d.get('kind'),
                                      clause=d.get('note'), model=d.get('model'), error=d.get('error')))
        if len(ded['samples']) < 5 and d['verdict'] == 'proved' and d['backend'] != 'syntactic':
            ded['samples'].append(dict(obligation=nm, clause=d.get('note'), verdict=d['verdict'], backend=d['backend'],
                                       seconds=round(d['time'], 3)))
    for f, vs in canary_by_func.items():
        if vs and all(x == 'proved' for x in vs):
            problems.append('vacuity: `False` is provable at every normal exit of %s (contradictory precondition or unsound encoding)' % f)
    if (cfg.get('functions') or cfg.get('lemmas')) and ded['obligations'] == 0 and not problems:
        problems.append('zero obligations generated')
    tree_now = tree_sha(REPO)
    if a.update_ledger:
        ledger[pid] = {n: vs.count('proved') for n, vs in names.items() if all(x == 'proved' for x in vs)}
        ledger.setdefault('__tree__', {})[pid] = tree_now
        try:
            loc = ledger.setdefault('__locals__', {})
            for mi in v.sb.mods.values():
                for fi_ in mi.funcs.values():
                    loc[fi_.key] = fi_.local_names()
        except Exception:      # noqa
            pass
        json.dump(ledger, open(ledger_path, 'w'), indent=0, sort_keys=True)
        print('ledger updated: %d obligation names proved for %s' % (len(ledger[pid]), pid))
    # ------------------------------------------------------------ native bounded part
    nat = None
    if nat_handle is not None:
        nat, err = finish_native(nat_handle)
        if err:
            problems.append(err)
    # ------------------------------------------------------------ verdict
    known = [k for k in load_known() if k.get('property') == pid and k.get('status') == 'known']
    violations = []
    known_hits = {}
    if nat:
        for f in nat['failures']:
            key = f.get('finding_key')
            hit = None
            for k in known:
                if key is not None and key == k.get('key'):
                    hit = k
                    break
            if hit is not None:
                known_hits.setdefault(hit['key'], (hit, f))
            else:
                violations.append(f)
    for k, (hit, f) in sorted(known_hits.items()):
        print('KNOWN-FINDING: property=%s %s [%s]' % (pid, hit.get('what', ''), k))
    exit_code = 0
    replay_path = None
    failed_led = [f for f in ded['failed'] if f['obligation'] in led]
    failed_new = [f for f in ded['failed'] if f['obligation'] not in led]
    annotations_ok = not ded['out_of_subset'] and not any(f.get('kind') not in ('post', 'raises', 'frame') for f in ded['failed'])
    refuted_property = [f for f in ded['failed'] if f['verdict'] == 'candidate' and f.get('kind') in ('post', 'raises', 'frame')] if annotations_ok else []
    if violations:
        replay_path = os.path.join(RPD, '%s_%s_%d.json' % (pid, tier, seed))
        json.dump(dict(property=pid, kind='native', failures=violations[:10],
                       failed_obligations=ded['failed'][:10]), open(replay_path, 'w'), indent=1, default=str)
        print('VIOLATION property=%s replay=%s' % (pid, replay_path))
        for f in violations[:3]:
            print('  failing input: check=%s input=%s -> %s' % (f['check'], json.dumps(f['input'], default=str)[:300], f['message'][:300]))
        for f in ded['failed'][:5]:
            print('  failed obligation: %s (%s)' % (f['obligation'], f['verdict']))
        exit_code = 1
    elif refuted_property:
        # a PROPERTY-level clause (postcondition, exception clause, frame) is refuted by the solver while every auxiliary annotation
        # (loop invariants, variants, lemma hypotheses, callee preconditions) still checks out on this tree and nothing left the subset:
        # the contracts still fit the code, and the code no longer meets them.  Anything weaker (an obligation that merely stays open,
        # a refuted invariant, a function outside the subset) is UNDECIDED: a harmless restructuring can cause it.
        cands = refuted_property
        replay_path = os.path.join(RPD, '%s_%s_%d.json' % (pid, tier, seed))
        json.dump(dict(property=pid, kind='obligation', failures=[dict(check='obligation:' + f['obligation'], input=f.get('model'),
                       message='obligation refuted by the solver (clause: %s); no failing real input found in the bounded native domain' % f.get('clause'))
                       for f in cands[:10]], failed_obligations=ded['failed'][:20]), open(replay_path, 'w'), indent=1, default=str)
        print('VIOLATION property=%s replay=%s no-failing-input-found' % (pid, replay_path))
        for f in cands[:5]:
            print('  refuted obligation: %s  clause: %s' % (f['obligation'], f.get('clause')))
        exit_code = 1
    elif ded['failed'] or ded['out_of_subset']:
        for f in ded['failed'][:10]:
            print('UNDECIDED property=%s obligation=%s verdict=%s' % (pid, f['obligation'], f['verdict']))
        for o in ded['out_of_subset'][:5]:
            print('UNDECIDED property=%s out-of-subset: %s' % (pid, o[:300]))
        exit_code = 2
    if problems:
        for p_ in problems:
            print('CHECKER-PROBLEM property=%s %s' % (pid, p_[:2000]))
        exit_code = 3 if exit_code == 0 else exit_code
    # ------------------------------------------------------------ evidence
    wall = time.time() - t0
    level = cfg['level']
    cov = dict(
        obligations=ded['obligations'], discharged=ded['discharged'],
        checker_cmd='./check %s --tier %s' % (pid, tier),
        trusted_base=COMMON_TRUSTED + cfg.get('trusted', []),
        explanation=cfg.get('explanation', '') or ('deductive obligations generated from the current source of the functions under contract and discharged by z3; '
                                                    'bounded native contract check of the real API reported separately under "bounded" and never counted as discharged'),
        functions_under_contract=ded['functions'],
        discharged_by_backend=ded['by_backend'], solver_seconds=round(ded['solver_time'], 2),
        vc_generation_seconds=round(ded['gen_time'], 2),
        undischarged=ded['failed'][:20], out_of_subset=ded['out_of_subset'][:20],
        canary_obligations=ded['canaries'],
        inlined_callees=ded.get('inlined', []), callee_contracts_used=ded.get('contracts_used_at_call_sites', []),
        trusted_models_used=ded.get('trusted_models_used', []), dropped_statements=ded.get('dropped', []),
        extraction=COMMON_DROPPED,
        samples=ded['samples'] + ((nat or {}).get('samples', [])[:3]),
        bounded=dict(label='bounded native contract check of the real code (NOT counted as proved)',
                     evaluations=(nat or {}).get('evaluations', 0), distinct=(nat or {}).get('distinct', 0),
                     bounds=(nat or {}).get('bounds', {}), failures=len((nat or {}).get('failures', [])),
                     seconds=round((nat or {}).get('wall_s', 0.0), 1), notes=(nat or {}).get('notes', [])[:10]),
        evaluations=max(1, (nat or {}).get('evaluations', 0)), distinct_nontrivial=max(2, (nat or {}).get('distinct', 0)) if nat else 2,
        rule='native: inputs enumerated/generated as described in bounded.bounds; distinct = distinct (check, input) pairs',
        known_findings_reproduced=sorted(known_hits.keys()),
    )
    ev = dict(property_id=pid, tier=tier, seed=seed, level=level, coverage=cov,
              assumptions=COMMON_TRUSTED + cfg.get('assumptions', []) + [COMMON_DROPPED], wall_s=round(wall, 2),
              violations=len(violations) + (1 if exit_code == 1 and not violations else 0))
    json.dump(ev, open(os.path.join(EVD, pid + '.json'), 'w'), indent=1, default=str)
    print('%s tier=%s obligations=%d discharged=%d out_of_subset=%d native_evaluations=%d failures=%d wall=%.1fs exit=%d' % (
        pid, tier, ded['obligations'], ded['discharged'], len(ded['out_of_subset']), (nat or {}).get('evaluations', 0), len(violations), wall, exit_code))
    sys.exit(exit_code)


if __name__ == '__main__':
    main()
