"""regenerates /verif/MANIFEST.json from checker/props.py (run by hand after editing props)"""
import json, os, sys
HERE = os.path.dirname(os.path.dirname(os.path.abspath(__file__)))
sys.path.insert(0, HERE)
from checker.props import PROPS, NOT_APPLICABLE, LEVEL_TEXT

def level_text(pid, c):
    if pid in LEVEL_TEXT and 'still being built' not in LEVEL_TEXT[pid]:
        return LEVEL_TEXT[pid]
    fns = [f.split(':')[1] for f in c.get('functions', [])]
    if not fns:
        return LEVEL_TEXT[pid]
    t = ('contract-based deductive verification of the real code: %d functions under side-car contracts (%s)%s%s; every obligation (postconditions, '
         'loop invariants, frames, absence of unexpected exceptions, lemma steps) is regenerated from /repo on each run and discharged by z3 / cvc5 for '
         'all inputs; a bounded native check of the same contracts on the real code runs beside it and is never counted as proved. '
         % (len(fns), ', '.join(fns), (', %d lemmas/theorems' % len(c['lemmas'])) if c.get('lemmas') else '',
            (', Lean 4 lemmas ' + ', '.join(n for _, n in c['lean'])) if c.get('lean') else ''))
    if c.get('explanation'):
        t += c['explanation'] + ' '
    if c.get('assumptions'):
        t += 'Stated limits: ' + '; '.join(c['assumptions']) + '.'
    return t


checks = []
for pid in sorted(PROPS):
    c = PROPS[pid]
    checks.append(dict(
        property_id=pid,
        quick_cmd='./check %s --tier quick' % pid,
        thorough_cmd='./check %s --tier thorough' % pid,
        evidence_file='/verif/evidence/%s.json' % pid,
        replay_cmd_template='./check %s --replay {path}' % pid,
        engine='pyvc',
        level_claimed=dict(category=c['level'], text=level_text(pid, c), design_ref='DESIGN.md section ' + c.get('design_ref', '2')),
        level_note=c.get('level_note', 'trusted: the VC generator /verif/pyvc and its Python semantics table, z3/cvc5, floats as reals, numpy/str library models, class invariant assumed at method entry; see evidence.assumptions'),
        technique=c.get('technique', 'contract-based deductive verification: VCs generated from the AST of the real functions (side-car contracts, loop invariants, inductive lemmas), discharged by z3; bounded native contract check beside it'),
    ))
m = dict(version=1,
         setup_cmd='./setup.sh',
         hooks=dict(guard='LOCALCIDER_VERIF', enable='no source hooks: contracts are side-car files under /verif/contracts; the native harness injects recording RNGs by replacing module attributes (LOCALCIDER_VERIF=1 is exported but read by no repository code)',
                    baseline_off_cmd='cd /repo && /venv/bin/python -m pytest -ra -q -p no:cacheprovider --timeout=900 --continue-on-collection-errors localcider/tests',
                    source_commits=[], add_only=True),
         engines=[dict(name='pyvc', path='/verif/pyvc', serves_properties=sorted(PROPS),
                       kind_free_text='AST->z3 verification-condition generator (symbolic executor over a stated Python subset, re-reading /repo on every run) + z3/cvc5 discharge'),
                  dict(name='native', path='/verif/native', serves_properties=sorted(PROPS),
                       kind_free_text='bounded run-time check of the same contracts on the real code under /venv/bin/python; replay oracle; never counted as proved')],
         checks=checks,
         not_applicable=NOT_APPLICABLE + [dict(property_id=json.loads(l)['id'], reason='no check built yet in this session (work in progress; DESIGN.md section 2 plans one)')
                                           for l in open(os.path.join(HERE, 'properties.jsonl')) if json.loads(l)['id'] not in PROPS and json.loads(l)['id'] not in [n['property_id'] for n in NOT_APPLICABLE]],
         notes='exit codes: 0 held, 1 VIOLATION, 2 undecided (open obligation, nothing refutes it), 3 checker problem. known findings: /verif/known_findings.json')
json.dump(m, open(os.path.join(HERE, 'MANIFEST.json'), 'w'), indent=1)
print('MANIFEST.json written with %d checks, %d not applicable' % (len(checks), len(NOT_APPLICABLE)))
