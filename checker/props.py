"""Per-property configuration of the checks: which functions are under contract, which lemmas are
proved, which native (bounded) module stands beside them, and what is assumed."""
SEQ = 'localcider/backend/sequence.py:Sequence.'
SP = 'localcider/sequenceParameters.py:SequenceParameters.'

COMMON_TRUSTED = [
    'the VC generator /verif/pyvc (AST -> z3 symbolic executor) and its Python-semantics table DESIGN 1.2',
    'z3 5.1.0 (z3-solver wheel); cvc5 1.0.3 / z3 4.8.12 only as second opinion on normalised queries',
    'floats treated as mathematical reals (float literals are the exact decimal written in the source)',
    'numpy/str/list library models in /verif/pyvc/models.py (np.where/len = count, np.append, np.arange, np.vstack, np.power(10,x)=pow10, x**0.5=sqrt uninterpreted)',
    'Sequence class invariant INV assumed at method entry in the structural form chargePattern = (j -> charge(seq[j])), values outside [0,len) never read',
]
COMMON_DROPPED = 'extraction drops: docstrings, comments, print/status_message/warning_message calls (no-ops with empty frame), time.time() reads, ndarray-vs-list identity'

PROPS = {
    'C02': dict(
        level='proof',
        functions=[SEQ + f for f in ('countPos', 'countNeg', 'countNeut', 'Fplus', 'Fminus', 'FCR', 'NCPR', 'sigma', 'deltaForm', 'delta')] + [SP + 'get_delta'],
        lemmas=['count_partition', 'npos_nonneg', 'nneg_nonneg', 'nneut_nonneg'],
        native='c02',
        assumptions=['floating-point rounding is not modelled: "to floating-point accuracy" is checked only by the bounded native comparison (tolerance 1e-9 rel)'],
        design_ref='2 / C02',
    ),
    'C04': dict(
        level='proof',
        functions=[SEQ + f for f in ('countPos', 'countNeg', 'countNeut', 'Fplus', 'Fminus', 'FCR', 'NCPR', 'mean_net_charge', 'FER',
                                     'meanHydropathy', 'uverskyHydropathy', 'meanWWHydropathy', 'FPPII_chain', 'molecular_weight',
                                     'fraction_disorder_promoting', 'amino_acid_fraction')] +
                  [SP + f for f in ('get_countPos', 'get_countNeg', 'get_countNeut', 'get_fraction_positive', 'get_fraction_negative',
                                    'get_FCR', 'get_NCPR', 'get_mean_net_charge', 'get_fraction_expanding', 'get_mean_hydropathy',
                                    'get_uversky_hydropathy', 'get_WW_hydropathy', 'get_PPII_propensity', 'get_molecular_weight',
                                    'get_fraction_disorder_promoting', 'get_amino_acid_fractions')],
        lemmas=['count_partition', 'npos_nonneg', 'nneg_nonneg', 'nneut_nonneg', 'C04_identities'],
        native='c04',
        assumptions=['published tables are the transcription in /verif/contracts/tables.py (literature sources named there)',
                     'permutation invariance and the identities FCR=f+ + f-, |NCPR|<=FCR<=1 follow from the proved closed forms (counts / sums of per-residue values); they are also checked natively'],
        design_ref='2 / C04',
    ),
    'C07': dict(
        level='proof',
        functions=[SEQ + 'sequence_charge_decoration', SP + 'get_SCD'],
        lemmas=[],
        native='c07',
        assumptions=['sqrt is uninterpreted (x**0.5 = sqrt(x), sqrt >= 0): the proof shows the code computes the same expression as the statement',
                     'float accuracy checked only natively (1e-9)'],
        design_ref='2 / C07',
    ),
    'C08': dict(
        level='proof',
        functions=[SEQ + f for f in ('FCR', 'NCPR', 'Fplus', 'Fminus', 'phasePlotRegion', 'phasePlotAnnotation')] + [SP + 'get_phasePlotRegion'],
        lemmas=['count_partition', 'npos_nonneg', 'nneg_nonneg', 'nneut_nonneg', 'C08_threshold_separation'],
        native='c08',
        assumptions=['thresholds compared over the reals. Float agreement is ARGUED, not mechanised end to end: a ratio of integers m/N is exactly on a threshold or at least 1/(20N) away from it '
                     '(theorem C08_threshold_separation, proved), which exceeds the error of one correctly rounded division by many orders of magnitude for any realistic N, 1/4 is a double, and 7/20 computed as '
                     '7k/20k rounds to the same double as the literal 0.35 (same real, same rounding) - the IEEE-754 facts themselves are assumed; the exhaustive native enumeration of all '
                     'composition triples (N <= 48 quick, 120 thorough) checks the same agreement on the real floats'],
        design_ref='2 / C08',
    ),
    'C09': dict(
        level='other',
        functions=[SEQ + f for f in ('charge_at_pH', 'FCR', 'NCPR', 'mean_net_charge', 'FER', 'isoelectric_point')] +
                  [SP + f for f in ('__verify_pH', 'get_FCR', 'get_NCPR', 'get_mean_net_charge', 'get_fraction_expanding')],
        lemmas=['hh_mono', 'hh_bounds', 'C09_ncpr_monotone', 'C09_bounds'],
        native='c09',
        explanation='proved: titration sums equal the Henderson-Hasselbalch definition at the EMBOSS pKa values (pow10 uninterpreted, positive, strictly increasing), '
                    'monotonicity and bounds (inductive lemmas), pH range check before the backend, and for isoelectric_point: termination (lexicographic variant), '
                    '|mean charge per titratable residue| <= 0.02 at the returned pH, 7.0 when nothing titrates. NOT proved: that the search never gives up '
                    '(the SequenceException exit is allowed by the contract) - bounded enumeration of titratable-count vectors stands in',
        assumptions=['pow10 is an uninterpreted function with pow10(x) > 0 and strict monotonicity (instances added per query)',
                     'definite assignment of protein_charge at its first read in isoelectric_point (needs 20 earlier iterations) is argued, not mechanised',
                     'isoelectric_point may raise SequenceException according to its contract: "returns for every sequence" is bounded-only'],
        design_ref='2 / C09',
    ),
    'C10': dict(
        level='proof',
        functions=[SEQ + f for f in ('__check_window_to_length', 'linearDistOfNCPR', 'linearDistOfFCR', 'linearDistOfSigma',
                                     'linearDistOfHydropathy', 'linearDenistyOfAAs', '__parse_group', 'linearCompositions')] +
                  [SP + f for f in ('get_linear_NCPR', 'get_linear_FCR', 'get_linear_sigma', 'get_linear_hydropathy',
                                    'get_linear_sequence_composition')],
        lemmas=['sum_ext', 'C10_link_wN', 'sum_scale_5', 'sum_scale_6', 'C10_link_delta'],
        native='c10',
        assumptions=['group members are one-character strings (multi-character or non-string members: native check only)',
                     'links as theorems over the closed forms: with w = N the window statistic of the single window IS the global closed form (C10_link_wN, syntactic identity of the spec functions C02/C04 are proved against), and delta_spec equals the mean over w = 5, 6 of the mean squared deviation of the sigma-profile entries from the global sigma (C10_link_delta with the scaling lemmas sum_scale_5/6)',
                     'iteration over set(list) modelled as iteration over the list (order abstracted)'],
        design_ref='2 / C10',
    ),
    'C13': dict(
        level='proof',
        functions=[SEQ + f for f in ('validateSequence', '__init__', '__init__#validate', '__init__#nonstr')] +
                  [SP + f for f in ('__init__', 'get_sequence', 'get_length', '__len__')],
        lemmas=['n_aa_strict', 'n_aa_nonneg'],
        native='c13',
        assumptions=['str.upper / str.isspace: exact on ASCII, trusted code-point maps chr_upper / chr_isspace beyond ASCII; upper-casing is assumed length-preserving (the native check covers the code points where it is not, e.g. U+00DF)',
                     'the normalised word is characterised by a position map (|r| = #letters, letter j of the input sits at position #letters-before-j), not constructed',
                     '"every analysis of the object equals the analysis of the normalised word": all analysis contracts are functions of self.seq and INV-determined fields only (C15); checked natively as well',
                     'blank / whitespace-only text is rejected by the ZeroDivisionError of the proline-content division (the statement only asks for an exception)'],
        design_ref='2 / C13',
    ),
    'C14': dict(
        level='other',
        functions=['localcider/backend/seqfileparser.py:SequenceFileParser.' + f for f in ('__validSeq', '__final_validation', 'parseSeqFile')],
        lemmas=['n_keep_strict', 'n_keep_nonneg', 'n_keep_nonneg_all', 'n_keep_onto', 'n_star_nonneg', 'n_star_zero', 'nsym_none'],
        native='c14',
        explanation='proved for all lines: __validSeq keeps exactly the residue letters and "*" of a line in order, drops spaces and digits, and raises exactly when another character occurs; '
                    '__final_validation returns the word unchanged without "*", drops a single final "*", raises exactly for a repeated or non-final "*". '
                    'parseSeqFile is under contract for files of 0, 1 and 2 lines, each line a symbolic string of ANY length and content: lines are stripped '
                    '(str.strip modelled as the slice between the first and last non-white-space character), blank lines skipped, a first header line skipped, and the result is exactly the '
                    'residue letters of the sequence lines in order (closed-form position of every residue letter: kept characters of earlier lines + kept characters before it; only residue '
                    'letters occur; length = kept characters, less one for a single final "*"); it raises ALWAYS when a second header line or a foreign character in a sequence line occurs, and '
                    'otherwise only if a "*" occurs (exactly when: the contract of __final_validation, applied at its call site). The NUMBER of lines is bounded (this is why the level is not '
                    '"proof"); more lines, real files on disk and the file branch of the constructors are covered by the bounded native check on temporary files',
        assumptions=['parseSeqFile: number of lines bounded by 2, line contents unbounded (a three-line variant exists as contract parseSeqFile#three; 223 of its 225 obligations discharge, two time out, so it is not part of any tier)',
                     'open()/readlines(): the lines are ghost content attached to the file name (the file system is not modelled)',
                     'str.strip(): ASCII white space exact, beyond ASCII the trusted classifier chr_isspace'],
        design_ref='2 / C14',
    ),
    'C12': dict(
        level='proof',
        functions=['localcider/backend/sequenceComplexity.py:SequenceComplexity.' + f for f in ('reduce_alphabet', 'reduce_alphabet#badsize', 'reduce_alphabet#user')] +
                  [SEQ + 'get_reducedAlphabetSequence', SP + 'get_reduced_alphabet_sequence'],
        lemmas=[], extra=['C12'],
        native='c12',
        assumptions=['the per-residue map of each predefined size is EXTRACTED on every run by executing the real reduce_alphabet on the twenty one-letter sequences; '
                     'the finite facts about it (documented partition, group count, representative is a member, idempotent, returned alphabet = representatives) are decided by evaluation, '
                     'and the loop contracts prove that sequences of every length are mapped residue by residue with exactly that map (length preserved, homomorphism)',
                     'documented partitions are the transcription in /verif/contracts/tables.py of the reduce_alphabet docstring',
                     'user alphabets: total dictionaries over the 20 residues with one-character values are covered by proof; missing keys, non-dict and multi-character values by the native check'],
        design_ref='2 / C12',
    ),
    'C01': dict(
        level='other',
        functions=[SEQ + f for f in ('sigma', 'deltaForm', 'delta', 'deltaMax', 'kappa')] + [SP + f for f in ('get_kappa', 'get_delta', 'get_deltaMax')],
        lemmas=['count_partition', 'npos_nonneg', 'nneg_nonneg', 'nneut_nonneg', 'rmax_lower'],
        native='c01',
        explanation='proved for all sequences: get_kappa() = kappa_of(delta, deltaMax) - i.e. -1 exactly when delta-max is 0, else delta/deltaMax with a ratio in (1,1.1) reported as 1 - where '
                    'delta is the Das-Pappu definition (C02) and deltaMax the maximum over the documented candidate family (C03), for both cache states. '
                    'NOT provable by a contract: the upper bound kappa <= 1 (optimality of the heuristic family over all arrangements; false today, defect D1) - bounded exhaustive enumeration of '
                    'charge patterns stands in, the 16 known violating patterns are listed as known findings',
        assumptions=['range clause kappa in {-1} U [0,1]: bounded (every canonical charge pattern up to length 9 quick / 12 thorough + random sequences up to length 12); known finding D1'],
        design_ref='2 / C01',
    ),
    'C03': dict(
        level='proof',
        functions=[SEQ + f for f in ('countPos', 'countNeg', 'countNeut', 'FCR', 'delta', '__init__', 'deltaMax', 'deltaMax#permutant', '__permutant_from_reduced_seq')] + [SP + 'get_deltaMax'],
        lemmas=['count_partition', 'npos_nonneg', 'nneg_nonneg', 'nneut_nonneg', 'rmax_lower', 'n_sym_strict_plus', 'n_sym_strict_minus', 'n_sym_strict_zero',
                'n_sym_nonneg_plus', 'n_sym_nonneg_minus', 'n_sym_nonneg_zero', 'cnt_ext', 'nsym_split', 'nsym_all', 'nsym_none', 'npos_ext', 'nneg_ext', 'dform_ext',
                'C05_delta_substitution', 'dform_nonneg', 'delta_nonneg', 'cnt_split', 'cnt_nonneg', 'dform_uncharged', 'delta_uncharged', 'filter_cnt', 'class_letter_partition'],
        native='c03',
        explanation='proved for all sequences: get_deltaMax() equals dmax_spec(n+, n-, n0) - a function of the three counts only - the running maximum of delta over the documented family (regime dispatch, tie rules, 17/18 boundary, '
                    'every candidate string built as documented, invariants for the eight search loops), from every cache state. With returnSeqDeltaMax=True (fresh object, value cached but permutant absent, both cached) the second component is a string of '
                    'amino-acid letters of the input\'s length with the input\'s numbers of positive, negative and neutral residues whose delta (Das-Pappu definition) EQUALS the returned value: the builder __permutant_from_reduced_seq is proved to '
                    'emit, position by position, a parent residue of the candidate\'s charge class without ever running out of residues, and the class-substitution theorem of C05 transfers the candidate\'s delta. '
                    'The permutant is made of EXACTLY the input\'s residues: every letter occurs in it as often as in the input (loop invariant counting an arbitrary letter in the text written so far against the three '
                    'per-class residue lists, lemma "counting a letter in a filtered list = counting it among the source positions that pass the filter", and the partition of a letter\'s occurrences over the three classes); '
                    'the statement is proved for one unconstrained constant letter, which is a proof for every letter. The bounded native check (every composition up to length 14/26, kappa-first histories) runs beside it',
        assumptions=['tie rule of "minority block slid through the majority": on equal block lengths the code slides the neutral (resp. positive) block; the statement does not settle ties and the spec follows the code',
                     'letter multiset: proved as "for the arbitrary constant LETTER the counts are equal" (generalisation over an unconstrained constant)',
                     '[x for x in s if P(x)] is modelled as a filter (length = count, order kept, onto)'],
        design_ref='2 / C03',
    ),
    'C06': dict(
        level='proof',
        functions=[SEQ + f for f in ('__parse_group', '__init__', 'kappa', 'Omega', 'Omega_seq', 'kappa_X')] + [SP + f for f in ('get_kappa', 'get_Omega_sequence', 'get_kappa_X', 'get_Omega')],
        lemmas=['rmax_lower'],
        native='c06',
        assumptions=['Omega() and kappa_X() are proved to return kappa_seq (the kappa of the statement, C01/C02/C03 specs) of the object built from a string that is, residue by residue, the documented recoding '
                     '(P,E,D,K,R -> E else K; group 1 -> E, group 2 -> K, else G). Identities between entry points (Omega = kappa_X(PEDKR), kappa = kappa_X([E,D],[K,R]), group swap, complement) then follow from the '
                     'recodings being pointwise equal / charge-inverted provided kappa_seq depends only on the first N characters (range-extensionality of the sum specs) and is inversion-invariant (C05): '
                     'those two steps are argued, not mechanised; the identities themselves are checked natively',
                     'group members are one-character strings (other members: native check)'],
        design_ref='2 / C06',
    ),
    'C20': dict(
        level='other',
        functions=[SEQ + 'set_HTMLColorResiduePalette', SEQ + 'get_HTMLColorString'],
        lemmas=[],
        native='c20',
        explanation='proved: set_HTMLColorResiduePalette accepts exactly the dictionaries that give each of the 20 residues one of the 17 colour names (values range over the 17 names and '
                    'representative illegal strings; one missing key per case), stores exactly the given colours, and leaves the palette unchanged on every exceptional exit (frame on raise). '
                    'get_HTMLColorString is under contract for all sequences of any length: the result is the opening tag, then for residue j (in order, exactly once) a space if j is a multiple of 10, '
                    'a <br> if j is a multiple of 50, and one span whose colour is the palette entry of the residue and whose content is the residue, then the closing tag, and nothing else '
                    '(loop invariant with closed-form offsets; %-formatting modelled as concatenation). In that proof every colour NAME is abstracted to one symbol (the palette maps residue a to a '
                    'colour symbol col(a)); the concrete text is the image of the proved text under col(a) -> palette[a], which is why the level is not "proof": markup stripping on the concrete '
                    'text is checked natively (random palettes/update series, markup stripped and compared, exact block layout)',
        assumptions=['rendering proof abstracts each colour name to one symbol; the 17 names contain no markup characters (checked against tables.HTML_COLOURS at import)',
                     'palette values are drawn from the 17 legal names plus the illegal candidates pink / Red / empty string',
                     '"%s" formatting of strings is modelled as concatenation of the literal pieces and the arguments'],
        design_ref='2 / C20',
    ),
    'C16': dict(
        level='proof',
        functions=[SEQ + f for f in ('setPhosPhoSites', 'clear_phosphosites', 'get_phosphosites', 'get_phosphosequence', 'kappa_at_maxPhos',
                                     'calculateNumberDifferentPhosphoStates', 'calculateKappaDistOfPhosphoStates', 'calculateKappaDistOfPhosphoStates#four', 'get_STY_residues')] +
                  [SP + f for f in ('set_phosphosites', 'clear_phosphosites', 'get_phosphosites', 'get_phosphosequence', 'get_kappa_after_phosphorylation',
                                    'get_full_phosphostatus_kappa_distribution', 'get_all_phosphorylatable_sites')],
        thorough_functions=[SEQ + 'calculateKappaDistOfPhosphoStates#five'],
        lemmas=['rmax_lower'],
        native='c16',
        assumptions=['transition contracts: set_phosphosites keeps the old list as a prefix, adds only requested valid (in range, S/T/Y) positions, adds every valid requested position, never repeats, never raises, '
                     'changes nothing but the list (frame); clear empties it. "After any series of calls" is the fold of these transitions (induction over the history: standard meta-step, not mechanised; checked natively on random series)',
                     'first-set order is part of the proved transition contract: an entry standing before another one was requested before the other one\'s first request',
                     'the distribution is proved for 0 to 4 sites (5 in the thorough tier): 2^k entries in binary counting order, each entry = the six contracts applied to the sequence with E stored at the sites whose bit is 1; more sites: native check (the number of sites is bounded, sequences are not)',
                     'the SequenceParameters forwarders (incl. get_kappa_after_phosphorylation, get_full_phosphostatus_kappa_distribution, get_all_phosphorylatable_sites) are verified against the backend contracts'],
        design_ref='2 / C16',
    ),
    'C15': dict(
        level='proof',
        functions=[SEQ + f for f in ('countPos', 'countNeg', 'countNeut', 'Fplus', 'Fminus', 'FCR', 'NCPR', 'mean_net_charge', 'FER', 'sigma', 'deltaForm', 'delta',
                                     'deltaMax', 'kappa', 'Omega', 'Omega_seq', 'kappa_X', 'sequence_charge_decoration', 'phasePlotRegion', 'charge_at_pH',
                                     'isoelectric_point', 'meanHydropathy', 'uverskyHydropathy', 'meanWWHydropathy', 'FPPII_chain', 'molecular_weight',
                                     'fraction_disorder_promoting', 'amino_acid_fraction', 'linearDistOfNCPR', 'linearDistOfFCR', 'linearDistOfSigma',
                                     'linearDistOfHydropathy', 'linearDenistyOfAAs', 'linearCompositions', 'get_reducedAlphabetSequence',
                                     'get_phosphosites', 'get_phosphosequence', 'kappa_at_maxPhos', 'calculateKappaDistOfPhosphoStates')],
        lemmas=['sum_ext', 'rmax_lower', 'count_partition', 'npos_nonneg', 'nneg_nonneg', 'nneut_nonneg'],
        native='c15',
        assumptions=['per-step argument: every read-only backend method m satisfies {INV} m {INV, result = F_m(seq, phosphosites, args)} with F_m not mentioning the delta-max cache, and the frame '
                     'obligation that m writes nothing but dmax/seqDeltaMax (every other field is proved unchanged, including through nested objects). History independence follows by induction over the '
                     'call sequence (standard meta-step, not mechanised; random call histories are checked natively)',
                     'deltaMax is verified from both cache states (empty, filled) and returns the same value; the permutant-returning path and the HTML renderer are covered natively only',
                     'shared default arguments: linearCompositions is verified from both states of its default group list (fresh, already filled by an earlier call)'],
        design_ref='2 / C15',
    ),
    'C17': dict(
        level='other',
        functions=[SEQ + f for f in ('__init__', 'swapRes', 'swapRandChargeRes', 'full_shuffle', 'permute_block_swap')] +
                  [SP + f for f in ('__init__', '__init__#seqobj', 'get_shuffled_sequence')] + ['localcider/sequencePermutants.py:SequencePermutants.get_permutant'],
        lemmas=['nmov_strict', 'nmov_nonneg', 'nmov_mono', 'nmov_nonneg_all'], lean=[('Perm.lean', 'perm_counts')],
        native='c17',
        explanation='proved for all sequences, all frozen sets and ALL outcomes of the internal random choices (random.Random methods return fresh values constrained only by the library contract): '
                    'swapRes returns the transposition of the two positions; swapRandChargeRes returns the object itself or a transposition of two NON-frozen positions and never raises; '
                    'full_shuffle keeps every frozen position and gives every other position the residue of a non-frozen source position taken from a duplicate-free shuffled enumeration (pop never hits an empty list); '
                    'every child satisfies the class invariant (length, charge pattern of ITS sequence), carries -1 or the parent\'s delta-max, and the parent object is unchanged (frame). '
                    'permute_block_swap (sequences of at least 4 residues, every outcome of randint/sample, every number of retries): the child is the parent with two DISJOINT stretches of equal length exchanged (existential invariant proved with the witnesses min(block0), min(block1), max(block0)-min(block0); slice assignment modelled for in-range equal-length slices), satisfies the class invariant, carries -1 or the parent\'s delta-max, the parent is unchanged, and the only exception is the documented SequenceException. NOT under contract: permute_cluster_charges (nested retry loops whose termination is probabilistic, two dynamic index sets filled by pop(0)) - bounded native runs with tape-driven RNG; '
                    'they ignore `frozen` (defect D8, known finding)',
        assumptions=['"is a rearrangement": proved in witness form (child = parent composed with an index map: transposition / frozen-identity + duplicate-free sources); that an injective self-map of [0,N) preserves all letter counts is Lean lemma perm_counts (/verif/lemmas/Perm.lean), the injectivity of the full_shuffle map is argued from the proved facts (duplicate-free enumeration, strictly increasing count of movable positions), not mechanised',
                     'random.Random, list(set), sorted(set), len(set), set difference: trusted library models (DESIGN 1.4)',
                     'carried delta-max equals the fresh value because delta-max is composition-only (C03) and a rearrangement keeps the composition'],
        design_ref='2 / C17',
    ),
    'C19': dict(
        level='other',
        functions=[SP + f for f in ('show_phaseDiagramPlot', 'save_phaseDiagramPlot', 'show_uverskyPlot', 'save_uverskyPlot',
                                    'show_linearFCR', 'show_linearFCR#show', 'save_linearFCR', 'show_linearSigma', 'show_linearSigma#show', 'save_linearSigma',
                                    'show_linearHydropathy', 'show_linearHydropathy#show', 'save_linearHydropathy')] +
                  ['localcider/plots.py:' + f + t for f in ('show_multiple_phasePlot', 'save_multiple_phasePlot', 'show_multiple_uverskyPlot', 'save_multiple_uverskyPlot') for t in ('', '#labels')] +
                  ['localcider/plots.py:' + f for f in ('show_single_phasePlot', 'save_single_phasePlot', 'show_single_uverskyPlot', 'save_single_uverskyPlot')],
        lemmas=['count_partition', 'npos_nonneg', 'nneg_nonneg', 'nneut_nonneg', 'sum_ext'], extra=['C19'],
        native='c19',
        explanation='matplotlib is not modelled. PROVED about what is HANDED to it (calls into the library are recorded with their arguments by the executor): every entry point listed passes '
                    '(f+, f-) resp. (mean net charge, Uversky hydropathy) of the sequence to scatter exactly once per sequence, the requested title to title(), [0, xLim] / [0, yLim] to xlim()/ylim(), '
                    'returns the pyplot handle when getFig is set and calls show()/savefig() exactly once otherwise, and never raises for legal coordinates (the whole callee chain plots -> backend.plotting is inlined, '
                    'so a dropped or shifted positional argument fails a named obligation); linear FCR/sigma/hydropathy plots hand bar() the position row 1..N and exactly the proved profile row. '
                    'POLYGON THEOREM (QF_LRA, vertices read from the AST of finalize_DasPappu): every composition classified in region k by the thresholds proved in C08 lies in the closed polygon drawn for k, and the five interiors are pairwise disjoint. '
                    'Rendering itself (that scatter/fill/bar/title do what their names say) is trusted; the bounded native check reads the artists back under the Agg back end',
        assumptions=['matplotlib calls are recorded, not modelled (trusted rendering)', 'plots.*2 variants taking SequenceParameters lists and show_linearNCPR (loop over the returned bar container) are covered natively only',
                     'multi-sequence entry points are proved for two sequences (with and without labels)'],
        design_ref='2 / C19',
    ),
    'C18': dict(
        level='other',
        functions=['localcider/backend/wang_landau.py:WangLandauMachine.' + f for f in ('getBinSize', 'getBinCenters', 'indexInsideRelevantRegion', '__run_flatcheck')],
        thorough_functions=[],  # 'localcider/backend/wang_landau.py:WangLandauMachine.run_normal_WL' belongs here once a complete run (all paths) has come back fully discharged: DESIGN 10.8
        lemmas=['cnt_le', 'cnt_full'],
        native='c18',
        explanation='PROVED (for every machine state satisfying the geometry invariant): bin centres are the midpoints (i+1/2)/nbins of the equal partition of [0,1]; the range test is relevant_min <= idx <= relevant_max; '
                    'the flat check declares flatness exactly when every bin of the range holds at least the criterion fraction of the mean count, and then (and only then) takes the square root of f, zeroes the histogram and advances the iteration, '
                    'otherwise leaves H, f and the iteration untouched; it always resets the step counter. '
                    'WRITTEN BUT NOT COUNTED IN ANY TIER (contracts/wl.py, DESIGN 10.7/10.8: every distinct obligation discharged on one path, the complete run over all ~50 paths was not finished in time), the run loop of run_normal_WL under a loop-transition contract (one iteration, for every state, every proposal the move contracts allow and every pair of uniform draws): '
                    'the acceptance probability is min(1, exp(g[old bin] - g[proposal bin])) for a proposal whose bin lies inside the range and 0 otherwise; the chain moves exactly when the acceptance draw is below it and then sits '
                    'in the proposal\'s bin (inside the range) with the proposal\'s kappa, otherwise nothing about the current state changes; on a counted step ln f is added to g of the occupied bin and to no other, and 1 to its histogram entry; '
                    'a flat check closes exactly every nflatchk-th step, looks at the range of the updated histogram and replaces f by sqrt(f) and zeroes H exactly when all bins of the range meet the criterion; '
                    'the loop ends only with f <= convergence; the returned bin centres are the midpoints. The bin of a kappa value is numpy.argmin(|centres - kappa|) as in the code. '
                    'NOT under contract: the constructor\'s bin arithmetic (round/argmin on floats), "visits only rearrangements" (the move contracts state structural relations, not multisets), logs and DOS files - '
                    'these are checked by MONITORED RUNS: seeded recording RNGs are injected, '
                    'every proposal is recorded and the whole bookkeeping (bins, acceptance with min(1, exp(g_old-g_new)), g/H updates, flat checks, f schedule, logs, DOS files, returned array) is re-executed independently '
                    'from the recorded draws and compared step by step',
        assumptions=['flat check with an all-zero local histogram (numpy NaN semantics: "not flat") is an ASSUMED contract (__run_flatcheck#allzero); also covered by the monitored runs',
                     'text formatting/logging helpers (fprint*Vector, writeLog, mklog) have assumed contracts; os.path.join, time.time, print and number formatting are opaque',
                     'run-loop contract (not counted): the four moves are represented by their contracts; permute_cluster_charges has an ASSUMED contract (same length, class invariant); that the delta-max handed to a child is the child\'s own '
                     '(dmax_inv of the proposal) is ASSUMED at the call sites of all four moves (C17: bounded native check); numpy.argmin = first index of a minimal element, exp/ln/sqrt uninterpreted; '
                     'requires length >= 4 (block swap), nflatchk >= 1; exceptions of the moves (SequenceException, ValueError) may escape',
                     'whole-run behaviour: bounded monitored runs (8 configurations x 2/12 seeded tapes), capped runs are inconclusive'],
        design_ref='2 / C18',
    ),
    'C11': dict(
        level='proof',
        functions=['localcider/backend/sequenceComplexity.py:SequenceComplexity.' + f for f in ('reduce_alphabet', 'CWF', 'LC', 'LZW', 'get_indexed_complexity_vector',
                                                                                              'get_WF_complexity', 'get_LC_complexity', 'get_LZW_complexity')] +
                  [SEQ + f for f in ('__check_window_to_length', 'get_linear_WF_complexity', 'get_linear_LC_complexity', 'get_linear_LZW_complexity')] +
                  [SP + 'get_linear_complexity', SP + 'get_linear_complexity#badtype'],
        lemmas=['wf_counts_only', 'C11_wf_permutation', 'wf_homopolymer', 'C11_wf_homopolymer', 'nsym_all', 'nsym_none'], lean=[('Entropy.lean', 'wf_le_one'), ('Entropy.lean', 'card_words')], extra=['C12'],
        native='c11',
        assumptions=['proved by z3: window count K = floor((N-w)/s)+1 (all three types), positions strictly increasing inside 1..N, each WF value = - sum over the alphabet letters of p log_A p with p the letter\'s share of '
                     'ITS OWN window of the reduced sequence (locality: only indices [k s, k s + w) are read), LZW in [0,1], LC >= 0 and LC * vmax <= number of word positions, unknown type and w > N rejected, type case-insensitive',
                     'WF <= 1 is the Gibbs inequality and "at most A^k distinct words" is a counting fact: both proved in Lean 4 / Mathlib (/verif/lemmas/Entropy.lean: wf_le_one, card_words), stated in the shape the VC leaves; '
                     'the reading of the SMT sums as Finset sums and that the reduced letters are among the alphabet (sum of shares = 1) is the trusted link',
                     'log is uninterpreted (math.log(p, b) = logb(p, b)); n-gram sets are abstracted to their cardinality (membership = fresh boolean, add grows it by at most one)',
                     'permutation invariance (two windows with the same letter counts have the same WF value: inductive lemma wf_counts_only, theorem C11_wf_permutation) and "homopolymeric window -> 0" (wf_homopolymer, C11_wf_homopolymer; uses the axiom instance log_b 1 = 0) are theorems over the closed form wf_spec the code is proved to return'],
        design_ref='2 / C11',
    ),
    'C05': dict(
        level='other',
        functions=[SEQ + f for f in ('delta', 'sequence_charge_decoration', 'kappa', 'Omega')],
        lemmas=['npos_ext', 'nneg_ext', 'nneut_ext', 'dform_ext', 'C05_delta_substitution', 'C05_dmax_substitution', 'C05_kappa_substitution',
                'scd_inner_ext', 'scd_outer_ext', 'C05_scd_substitution', 'npos_inv', 'dform_inv', 'C05_delta_inversion',
                'scd_inner_inv', 'scd_outer_inv', 'C05_scd_inversion', 'rmax_lower',
                'npos_first', 'dform_first', 'npos_rev', 'dform_rev', 'C05_delta_reversal', 'C05_dmax_reversal', 'C05_kappa_reversal', 'count_partition'],
        native='c05',
        explanation='relational theorems over the closed forms the API functions are PROVED to return (get_delta = delta_spec, get_SCD = scd_spec, get_deltaMax = dmax_seq, get_kappa = kappa_seq, '
                    'get_Omega = kappa_seq of the recoded string): for any two sequences whose residues have pairwise equal charge class, delta, delta-max, kappa and SCD are equal (inductive extensionality lemmas over the sums, '
                    'all discharged by z3); for any two sequences related by charge inversion, delta and SCD are equal. Omega under substitution inside {P,E,D,K,R} / the other fifteen is the kappa theorem applied to the recoded strings. '
                    'REVERSAL: for any two sequences with charge(t[j]) == charge(s[N-1-j]), delta, delta-max and kappa are equal (count reversal and blob-sum reversal lemmas by induction, using '
                    'peel-first lemmas because the sums are defined by peeling the last element; delta-max is a function of the three counts). '
                    'NOT mechanised: reversal invariance of SCD (triangular double-sum re-indexing) and inversion invariance of delta-max / kappa (the candidate families map onto each other under '
                    'inversion + reversal) - bounded native relation check (exhaustive patterns up to length 6/8, random sequences incl. skewed compositions with >= 18 neutrals)',
        assumptions=['reversal of SCD and Omega, inversion of delta-max/kappa/Omega: bounded native check only',
                     'the relational theorems are stated over the spec functions the API functions are proved to return; the step from "get_kappa() == kappa_seq(seq)" on two objects to the relation is a substitution of equals'],
        design_ref='2 / C05',
    ),
}

_BOUNDED_ONLY = ('deductive contracts for this property are not yet discharged in this build: the claim rests on the bounded native '
                 'contract check of the real API (bounds in evidence.coverage.bounded), which is never counted as proved')
for _pid, _nat in [('C01', 'c01'), ('C03', 'c03'), ('C04', 'c04'), ('C05', 'c05'), ('C06', 'c06'), ('C07', 'c07'), ('C08', 'c08'),
                   ('C09', 'c09'), ('C10', 'c10'), ('C11', 'c11'), ('C12', 'c12'), ('C13', 'c13'), ('C14', 'c14'), ('C15', 'c15'),
                   ('C16', 'c16'), ('C17', 'c17'), ('C18', 'c18'), ('C19', 'c19'), ('C20', 'c20')]:
    PROPS.setdefault(_pid, dict(level='other', functions=[], lemmas=[], native=_nat, assumptions=[_BOUNDED_ONLY],
                                explanation=_BOUNDED_ONLY, design_ref='2 / ' + _pid))



LEVEL_TEXT = {
    'C02': 'Every function between get_delta and the charge pattern (countPos/Neg/Neut, Fplus/Fminus, sigma, deltaForm, delta) is under a side-car contract whose postcondition is the Das-Pappu definition written from the statement (exact sums over a symbolic sequence of symbolic length); loop invariant, postconditions, frame conditions and the inductive count lemmas are discharged by z3 for all sequences. Float rounding is not modelled (bounded numeric comparison reported separately).',
}
for _pid in PROPS:
    LEVEL_TEXT.setdefault(_pid, 'bounded native contract check of the real API only (exhaustive small domains + seeded random inputs, bounds in the evidence); deductive obligations for this property are still being built and nothing is claimed as proved')

NOT_APPLICABLE = []
