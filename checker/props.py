"""Per-property configuration of the checks: which functions are under contract, which lemmas are
proved, which native (bounded) module stands beside them, and what is assumed."""
SEQ = 'localcider/backend/sequence.py:Sequence.'
SP = 'localcider/sequenceParameters.py:SequenceParameters.'

COMMON_TRUSTED = [
    'the VC generator /verif/pyvc (AST -> z3 symbolic executor) and its Python-semantics table DESIGN 1.2',
    'z3 5.1.0 (z3-solver wheel); cvc5 1.0.3 / z3 4.8.12 only as second opinion on normalised queries',
    'floats treated as mathematical reals (float literals are the exact decimal written in the source)',
    'numpy/str/list library models in /verif/pyvc/models.py (np.where/len = count, np.append, np.arange, np.vstack, np.power(10,x)=pow10, x**0.5=sqrt uninterpreted)',
    'Sequence class invariant INV assumed at method entry in the structural form chargePattern = (j -> charge(seq[j])), values outside [0,len) never read',
]
COMMON_DROPPED = 'extraction drops: docstrings, comments, print/status_message/warning_message calls (no-ops with empty frame), time.time() reads, ndarray-vs-list identity'

PROPS = {
    'C02': dict(
        level='proof',
        functions=[SEQ + f for f in ('countPos', 'countNeg', 'countNeut', 'Fplus', 'Fminus', 'sigma', 'deltaForm', 'delta')],
        lemmas=['count_partition', 'npos_nonneg', 'nneg_nonneg', 'nneut_nonneg'],
        native='c02',
        assumptions=['floating-point rounding is not modelled: "to floating-point accuracy" is checked only by the bounded native comparison (tolerance 1e-9 rel)'],
        design_ref='2 / C02',
    ),
}

_BOUNDED_ONLY = ('deductive contracts for this property are not yet discharged in this build: the claim rests on the bounded native '
                 'contract check of the real API (bounds in evidence.coverage.bounded), which is never counted as proved')
for _pid, _nat in [('C01', 'c01'), ('C03', 'c03'), ('C04', 'c04'), ('C05', 'c05'), ('C06', 'c06'), ('C07', 'c07'), ('C08', 'c08'),
                   ('C09', 'c09'), ('C10', 'c10'), ('C11', 'c11'), ('C12', 'c12'), ('C13', 'c13'), ('C14', 'c14'), ('C15', 'c15'),
                   ('C16', 'c16'), ('C17', 'c17'), ('C19', 'c19'), ('C20', 'c20')]:
    PROPS.setdefault(_pid, dict(level='other', functions=[], lemmas=[], native=_nat, assumptions=[_BOUNDED_ONLY],
                                explanation=_BOUNDED_ONLY, design_ref='2 / ' + _pid))



LEVEL_TEXT = {
    'C02': 'Every function between get_delta and the charge pattern (countPos/Neg/Neut, Fplus/Fminus, sigma, deltaForm, delta) is under a side-car contract whose postcondition is the Das-Pappu definition written from the statement (exact sums over a symbolic sequence of symbolic length); loop invariant, postconditions, frame conditions and the inductive count lemmas are discharged by z3 for all sequences. Float rounding is not modelled (bounded numeric comparison reported separately).',
}
for _pid in PROPS:
    LEVEL_TEXT.setdefault(_pid, 'bounded native contract check of the real API only (exhaustive small domains + seeded random inputs, bounds in the evidence); deductive obligations for this property are still being built and nothing is claimed as proved')

NOT_APPLICABLE = []
