"""C02 native contract check: real get_delta / sigma / deltaForm against the exact-rational spec."""
import random
from fractions import Fraction
from .common import *
from contracts.common import delta_spec, dform, sigma_seq, charge

PROP = 'C02'


def chk_delta(seq):
    o = sp(seq)
    got = quiet(o.get_delta)
    exp = delta_spec(seq, len(seq))
    if not close(got, exp, 1e-9, 1e-12):
        return 'get_delta(%s)=%r but the definition gives %s' % (seq, got, float(exp))
    b = backend_seq(seq)
    for bl in (1, 2, 5, 6, len(seq), len(seq) + 1):
        g = quiet(b.deltaForm, bl)
        e = dform(seq, len(seq), bl)
        if not close(g, e, 1e-9, 1e-12):
            return 'deltaForm(%d) on %s = %r, definition %s' % (bl, seq, g, float(e))
    g = quiet(b.sigma)
    if not close(g, sigma_seq(seq, len(seq))):
        return 'sigma(%s)=%r, definition %s' % (seq, g, float(sigma_seq(seq, len(seq))))
    cp = [int(x) for x in b.chargePattern]
    if cp != [charge(c) for c in seq]:
        return 'charge pattern of %s is %s' % (seq, cp)
    return None


def chk_delta_history(inp):
    """get_delta after other queries (phosphorylation, profiles, moves) on the same object"""
    seq, seed = inp
    rng = random.Random(seed)
    o = sp(seq)
    exp = delta_spec(seq, len(seq))
    sty = [i + 1 for i, c in enumerate(seq) if c in 'STY']
    if sty:
        quiet(o.set_phosphosites, rng.sample(sty, min(len(sty), 3)))
    for m in rng.sample(['get_kappa_after_phosphorylation', 'get_phosphosequence', 'get_kappa', 'get_Omega', 'get_deltaMax',
                         'get_SCD', 'get_isoelectric_point', 'get_full_phosphostatus_kappa_distribution'], 4):
        quiet(getattr(o, m))
    w = min(len(seq), rng.choice([1, 5, 6]))
    for m in ('get_linear_FCR', 'get_linear_NCPR', 'get_linear_sigma'):
        quiet(getattr(o, m), w)
    quiet(o.clear_phosphosites)
    got = quiet(o.get_delta)
    if not close(got, exp, 1e-9, 1e-12):
        return 'get_delta(%s)=%r after other queries on the same object, the definition gives %s' % (seq, got, float(exp))
    return None


CHECKS = {'delta': chk_delta, 'delta_history': chk_delta_history}


def work_patterns(n, seed, both):
    rng = random.Random(seed * 1000 + n)
    r = Result(PROP)
    seqs = []
    for p in patterns(n):
        seqs.append(spell(p, rng))
        if both:
            seqs.append(spell_fixed(p))
    run_checks(r, 'delta', chk_delta, seqs)
    return r


def work_random(seed, count, maxlen):
    rng = random.Random(seed)
    r = Result(PROP)
    seqs = []
    for _ in range(count):
        s = random_sequence(rng)
        seqs.append(s[:maxlen])
    for a in AA20:
        seqs.append(a)
        seqs.append(a * 7)
    run_checks(r, 'delta', chk_delta, seqs)
    run_checks(r, 'delta_history', chk_delta_history, [(''.join(rng.choice('STYKEDRG') for _ in range(rng.randint(6, 30))), rng.randint(0, 10 ** 6))
                                                       for _ in range(count // 2)])
    return r


def tasks(tier, seed):
    nmax = 8 if tier == 'quick' else 11
    t = [('native.c02', 'work_patterns', (n, seed, n <= 6)) for n in range(1, nmax + 1)]
    nr = 8 if tier == 'quick' else 48
    t += [('native.c02', 'work_random', (seed * 77 + i, 40, 400)) for i in range(nr)]
    return t, dict(exhaustive_pattern_length=nmax, random_sequences=nr * 40, random_max_length=400,
                   tolerance='1e-9 relative / 1e-12 absolute')
