"""Independent reference computations (exact rationals where possible) used by the native checks."""
import math
from fractions import Fraction as F
from contracts.tables import *
from contracts.common import delta_spec, dform, sigma_seq, charge, sigma_of


def pattern_of(seq):
    return ''.join('+' if c in 'KR' else ('-' if c in 'DE' else '0') for c in seq)


def canon(pat):
    inv = {'+': '-', '-': '+', '0': '0'}
    i = ''.join(inv[c] for c in pat)
    return min(pat, pat[::-1], i, i[::-1])


def delta_pat(pat):
    """delta of a +/-/0 pattern (exact)"""
    s = ''.join('K' if c == '+' else ('E' if c == '-' else 'G') for c in pat)
    return delta_spec(s, len(s))


def family(p, n, z):
    """the documented family of maximally segregated arrangements for composition (p, n, z)"""
    N = p + n + z
    if p + n == 0:
        return ['0' * N]
    out = []
    if p == 0 or n == 0:
        ch = '+' if n == 0 else '-'
        c = p + n
        if z > c:
            for k in range(0, z + 1):
                out.append('0' * k + ch * c + '0' * (z - k))
        else:
            for k in range(0, c + 1):
                out.append(ch * k + '0' * z + ch * (c - k))
        return out
    if z == 0:
        if p > n:
            for k in range(0, p + 1):
                out.append('+' * k + '-' * n + '+' * (p - k))
        else:
            for k in range(0, n + 1):
                out.append('-' * k + '+' * p + '-' * (n - k))
        return out
    if z >= 18:
        for s in range(0, 7):
            for e in range(0, 7):
                out.append('0' * s + '+' * p + '0' * (z - s - e) + '-' * n + '0' * e)
        return out
    for mid in range(0, z + 1):
        for s in range(0, z - mid + 1):
            out.append('0' * s + '+' * p + '0' * mid + '-' * n + '0' * (z - s - mid))
    return out


def dmax_ref(p, n, z):
    fam = family(p, n, z)
    best = None
    for a in fam:
        d = delta_pat(a)
        if best is None or d > best[0]:
            best = (d, a)
    return best


def scd_ref(seq):
    q = [charge(c) for c in seq]
    N = len(seq)
    tot = 0.0
    for m in range(1, N):
        if q[m] == 0:
            continue
        for n in range(0, m):
            if q[n]:
                tot += q[m] * q[n] * math.sqrt(m - n)
    return tot / N


def region_ref(p, n, N):
    fcr = F(p + n, N)
    ncpr = F(p - n, N)
    if fcr < F(1, 4):
        return 1
    if fcr <= F(7, 20):
        return 2
    if abs(ncpr) < F(7, 20):
        return 3
    if p > n:
        return 5
    if n > p:
        return 4
    return None


def hh_charge(seq, pH, total=False):
    """Henderson-Hasselbalch charge sum (floats: pow is transcendental)"""
    t = 0.0
    for c in seq:
        if c in PKA_POS:
            t += 1.0 / (1.0 + 10.0 ** (pH - float(PKA[c])))
        if c in PKA_NEG:
            v = 1.0 / (1.0 + 10.0 ** (float(PKA[c]) - pH))
            t += v if total else -v
    return t


def titratable(seq):
    return sum(1 for c in seq if c in PKA_POS + PKA_NEG)


def kappa_from(delta, dmax):
    if dmax == 0:
        return -1
    k = delta / dmax
    if 1.0 < k < 1.1:
        return 1.0
    return k


def entropy_ref(window, alphabet_size):
    from collections import Counter
    c = Counter(window)
    w = len(window)
    h = 0.0
    for v in c.values():
        p = v / w
        h -= p * math.log(p, alphabet_size)
    return h
