"""C06 native: Omega and kappa_X are kappa of the recoded sequence."""
import random
from .common import *
from .refs import *

PROP = 'C06'


def recode(seq, g1, g2=None):
    g1 = set(x.upper() for x in g1)
    if g2:
        g2 = set(x.upper() for x in g2)
        return ''.join('E' if c in g1 else ('K' if c in g2 else 'G') for c in seq)
    return ''.join('E' if c in g1 else 'K' for c in seq)


def chk_omega(seq):
    o = sp(seq)
    om = quiet(o.get_Omega)
    rec = recode(seq, 'PEDKR')
    k = quiet(sp(rec).get_kappa)
    if not close(om, k, 1e-12, 1e-14):
        return 'get_Omega(%s)=%r but kappa of the recoded sequence %s is %r' % (seq, om, rec, k)
    kx = quiet(o.get_kappa_X, ['P', 'E', 'D', 'K', 'R'])
    if not close(om, kx, 1e-12, 1e-14):
        return 'get_Omega=%r != get_kappa_X(PEDKR)=%r on %s' % (om, kx, seq)
    k0 = quiet(o.get_kappa)
    k2 = quiet(o.get_kappa_X, ['E', 'D'], ['K', 'R'])
    if not close(k0, k2, 1e-12, 1e-14):
        return 'get_kappa=%r != get_kappa_X([E,D],[K,R])=%r on %s' % (k0, k2, seq)
    os_ = quiet(o.get_Omega_sequence)
    exp = ''.join('X' if c in 'PEDKR' else 'O' for c in seq)
    if os_ != exp:
        return 'get_Omega_sequence(%s)=%s, expected %s' % (seq, os_, exp)
    return None


def chk_groups(inp):
    seq, seed = inp
    rng = random.Random(seed)
    o = sp(seq)
    letters = list(AA20)
    rng.shuffle(letters)
    a = rng.randint(1, 10)
    b = rng.randint(0, 10)
    g1 = letters[:a]
    g2 = letters[a:a + b] if rng.random() < 0.7 else rng.sample(letters, b)      # sometimes overlapping
    v = quiet(o.get_kappa_X, g1, g2 or None)
    rec = recode(seq, g1, g2 or None)
    kr = quiet(sp(rec).get_kappa)
    if not close(v, kr, 1e-12, 1e-14):
        return 'kappa_X(%s,%s) on %s = %r but kappa of recoded %s = %r' % (g1, g2, seq, v, rec, kr)
    # order and case of members
    g1b = [x.lower() if rng.random() < 0.5 else x for x in rng.sample(g1, len(g1))]
    g2b = [x.lower() if rng.random() < 0.5 else x for x in rng.sample(g2, len(g2))]
    v2 = quiet(sp(seq).get_kappa_X, g1b, g2b or None)
    if not close(v, v2, 1e-12, 1e-14):
        return 'kappa_X changes with member order/case: %s/%s -> %r, %s/%s -> %r on %s' % (g1, g2, v, g1b, g2b, v2, seq)
    if g2 and not (set(g1) & set(g2)):
        v3 = quiet(sp(seq).get_kappa_X, g2, g1)
        if not close(v, v3, 1e-9, 1e-12):
            return 'kappa_X not symmetric in its groups: %r vs %r (%s | %s) on %s' % (v, v3, g1, g2, seq)
    if not g2:
        comp = [x for x in AA20 if x not in g1]
        if comp:
            v4 = quiet(sp(seq).get_kappa_X, comp)
            if not close(v, v4, 1e-9, 1e-12):
                return 'one-group kappa_X(%s)=%r differs from the complementary group %r on %s' % (g1, v, v4, seq)
    # rejected groups
    for bad in (['E', 'B'], ['e', 'z'], ['K', '1'], ['X'], [5]):
        r1 = outcome(sp(seq).get_kappa_X, bad)
        if r1[0] != 'exc':
            return 'group %s containing a non-amino-acid was accepted (%r)' % (bad, r1[1])
        r2 = outcome(sp(seq).get_kappa_X, ['E', 'D'], bad)
        if r2[0] != 'exc':
            return 'second group %s containing a non-amino-acid was accepted' % (bad,)
    return None


def chk_history(seqs):
    """interleaved kappa_X / Omega calls on several sequences: no state may leak between calls"""
    objs = [sp(s) for s in seqs]
    ref = [(quiet(sp(s).get_kappa), quiet(sp(s).get_Omega)) for s in seqs]
    for rnd in range(2):
        for o, s, (k, om) in zip(objs, seqs, ref):
            k2 = quiet(o.get_kappa_X, ['E', 'D'], ['K', 'R'])
            om2 = quiet(o.get_kappa_X, ['P', 'E', 'D', 'K', 'R'])
            if not close(k, k2, 1e-12, 1e-14):
                return 'kappa_X([E,D],[K,R]) on %s = %r but kappa of a fresh object = %r (after calls on %s)' % (s, k2, k, seqs)
            if not close(om, om2, 1e-12, 1e-14):
                return 'kappa_X(PEDKR) on %s = %r but Omega of a fresh object = %r' % (s, om2, om)
    return None


def chk_kx_history(inp):
    """a series of get_kappa_X calls on ONE object, with groupings that share letters but split them differently: every answer equals that of a fresh object"""
    seq, seed = inp
    rng = random.Random(seed)
    o = sp(seq)
    letters = sorted(set(seq)) + ['K', 'E']
    calls = [(['D', 'E', 'K', 'R'], None), (['E', 'D'], ['K', 'R']), (['K', 'R'], ['E', 'D']), (['D', 'E', 'K'], ['R'])]
    for _ in range(4):
        pool = rng.sample(letters, min(len(letters), rng.randint(2, 5)))
        pool = sorted(set(pool))
        cut = rng.randint(0, len(pool))
        a, b = pool[:cut], pool[cut:]
        for g1, g2 in ((pool, None), (a, b), (b, a)):
            if g1:
                calls.append((list(g1), list(g2) if g2 else None))
    rng.shuffle(calls)
    for g1, g2 in calls:
        args = (g1,) if g2 is None else (g1, g2)
        got = outcome(o.get_kappa_X, *args)
        exp = outcome(sp(seq).get_kappa_X, *args)
        if got[0] != exp[0] or (got[0] == 'ok' and not close(got[1], exp[1], 1e-12, 1e-14)):
            return 'get_kappa_X%r on %s after earlier get_kappa_X calls on the same object -> %r, a fresh object gives %r' % (args, seq, got, exp)
    return None


CHECKS = {'omega': chk_omega, 'groups': chk_groups, 'history': chk_history, 'kx_history': chk_kx_history}


def work(seed, count):
    rng = random.Random(seed)
    r = Result(PROP)
    seqs = [random_sequence(rng)[:120] for _ in range(count)]
    # sequences without D/E/K/R but with proline, and short ones
    seqs += [''.join(rng.choice('PGSTQNAWMV') for _ in range(rng.randint(2, 30))) for _ in range(count // 3)]
    run_checks(r, 'omega', chk_omega, seqs)
    run_checks(r, 'groups', chk_groups, [(s, rng.randint(0, 10 ** 6)) for s in seqs])
    hist = []
    for _ in range(count // 2):
        n = rng.randint(3, 14)
        # same counts of the two groups, different lengths
        p, q = rng.randint(1, 4), rng.randint(1, 4)
        hist.append([seq_of_composition(p, q, z, rng) for z in (0, 1, 3, n)])
    run_checks(r, 'history', chk_history, hist)
    run_checks(r, 'kx_history', chk_kx_history, [(s, rng.randint(0, 10 ** 6)) for s in seqs[:count // 2] if len(s) >= 2])
    return r


def tasks(tier, seed):
    k = 10 if tier == 'quick' else 64
    return [('native.c06', 'work', (seed * 19 + i, 18)) for i in range(k)], dict(random_sequences=k * 24, random_groupings_per_sequence=1,
                                                                               interleaved_histories=k * 9)
