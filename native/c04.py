"""C04 native: composition parameters against the published per-residue tables (exact rationals)."""
import random
from fractions import Fraction as F
from .common import *
from .refs import *

PROP = 'C04'


def chk_comp(seq):
    o = sp(seq)
    N = len(seq)
    cnt = {a: seq.count(a) for a in AA20}
    p = sum(cnt[a] for a in 'KR')
    n = sum(cnt[a] for a in 'DE')
    z = N - p - n
    exp = {
        'get_countPos': p, 'get_countNeg': n, 'get_countNeut': z,
        'get_fraction_positive': F(p, N), 'get_fraction_negative': F(n, N),
        'get_FCR': F(p + n, N), 'get_NCPR': F(p - n, N), 'get_mean_net_charge': abs(F(p - n, N)),
        'get_fraction_expanding': F(sum(cnt[a] for a in EXPANDING), N),
        'get_fraction_disorder_promoting': F(sum(cnt[a] for a in DISORDER_PROMOTING), N),
        'get_mean_hydropathy': sum(cnt[a] * KD_SHIFTED[a] for a in AA20) / N,
        'get_uversky_hydropathy': sum(cnt[a] * KD_UVERSKY[a] for a in AA20) / N,
        'get_WW_hydropathy': sum(cnt[a] * WW[a] for a in AA20) / N,
        'get_molecular_weight': sum(cnt[a] * MW[a] for a in AA20) - 18 * (N - 1),
    }
    got = {}
    for m, e in exp.items():
        g = quiet(getattr(o, m))
        got[m] = g
        if isinstance(e, int):
            if g != e:
                return '%s(%s)=%r, expected %r' % (m, seq, g, e)
        elif not close(g, e, 1e-9, 1e-9):
            return '%s(%s)=%r, published tables give %r' % (m, seq, g, float(e))
    for mode in ('hilser', 'creamer', 'kallenbach'):
        g = quiet(o.get_PPII_propensity, mode)
        e = sum(cnt[a] * PPII[mode][a] for a in AA20) / N
        if not close(g, e, 1e-9, 1e-9):
            return 'get_PPII_propensity(%s) on %s = %r, published %r' % (mode, seq, g, float(e))
    fr = quiet(o.get_amino_acid_fractions)
    if sorted(fr.keys()) != sorted(AA20):
        return 'amino-acid fraction keys %s' % sorted(fr.keys())
    for a in AA20:
        if not close(fr[a], F(cnt[a], N)):
            return 'fraction of %s in %s = %r, expected %r' % (a, seq, fr[a], float(F(cnt[a], N)))
    # identities
    if not close(got['get_FCR'], got['get_fraction_positive'] + got['get_fraction_negative']):
        return 'FCR != f+ + f-'
    if not close(got['get_NCPR'], got['get_fraction_positive'] - got['get_fraction_negative']):
        return 'NCPR != f+ - f-'
    if not (abs(got['get_NCPR']) <= got['get_FCR'] + 1e-12 <= 1 + 2e-12):
        return '|NCPR| <= FCR <= 1 violated'
    if got['get_countPos'] + got['get_countNeg'] + got['get_countNeut'] != N:
        return 'counts do not sum to the length'
    if not close(sum(fr.values()), 1.0):
        return 'fractions sum to %r' % sum(fr.values())
    return None


def chk_history(seq):
    """the same parameters after the linear-profile getters have run on the same object"""
    o = sp(seq)
    w = min(5, len(seq))
    for m in ('get_linear_FCR', 'get_linear_NCPR', 'get_linear_sigma', 'get_linear_hydropathy'):
        quiet(getattr(o, m), w)
    quiet(o.get_kappa)
    f = sp(seq)
    for m in ('get_countPos', 'get_countNeg', 'get_countNeut', 'get_FCR', 'get_NCPR', 'get_fraction_positive',
              'get_fraction_negative', 'get_mean_net_charge', 'get_mean_hydropathy'):
        a, b = quiet(getattr(o, m)), quiet(getattr(f, m))
        if a != b:
            return '%s on %s is %r after profile queries but %r on a fresh object' % (m, seq, a, b)
    return None


def chk_perm(inp):
    seq, seed = inp
    rng = random.Random(seed)
    l = list(seq)
    rng.shuffle(l)
    s2 = ''.join(l)
    a, b = sp(seq), sp(s2)
    for m in ('get_FCR', 'get_NCPR', 'get_mean_hydropathy', 'get_uversky_hydropathy', 'get_WW_hydropathy',
              'get_molecular_weight', 'get_fraction_disorder_promoting', 'get_fraction_expanding'):
        x, y = quiet(getattr(a, m)), quiet(getattr(b, m))
        if not close(x, y, 1e-9, 1e-9):
            return '%s differs between %s and its permutation %s: %r vs %r' % (m, seq, s2, x, y)
    return None


CHECKS = {'comp': chk_comp, 'perm': chk_perm, 'history': chk_history}


def work(seed, count, pairs):
    rng = random.Random(seed)
    r = Result(PROP)
    seqs = [random_sequence(rng)[:300] for _ in range(count)]
    if pairs:
        seqs += list(AA20) + [a + b for a in AA20 for b in AA20]
    run_checks(r, 'comp', chk_comp, seqs)
    run_checks(r, 'perm', chk_perm, [(s, rng.randint(0, 10 ** 6)) for s in seqs[:count]])
    run_checks(r, 'history', chk_history, seqs[:count])
    return r


def tasks(tier, seed):
    k = 8 if tier == 'quick' else 48
    return [('native.c04', 'work', (seed * 13 + i, 40, i == 0)) for i in range(k)], dict(
        singles_and_all_pairs=True, random_sequences=40 * k, max_length=300)
