"""C07 native: SCD against an independent evaluation of the Sawle-Ghosh double sum."""
import random
from .common import *
from .refs import *

PROP = 'C07'


def chk_scd(seq):
    o = sp(seq)
    g = quiet(o.get_SCD)
    e = scd_ref(seq)
    if not close(g, e, 1e-9, 1e-9):
        return 'get_SCD(%s)=%r but the definition gives %r' % (seq if len(seq) < 80 else seq[:77] + '...', g, e)
    if sum(1 for c in seq if c in 'KRDE') < 2 and g != 0:
        return 'SCD of a sequence with fewer than two charged residues is %r' % g
    return None


def chk_scd_history(inp):
    """SCD of an object after moves were derived from it"""
    seq, i, j = inp
    b = backend_seq(seq)
    before = quiet(b.sequence_charge_decoration)
    child = quiet(b.swapRes, i % len(seq), j % len(seq))
    after = quiet(b.sequence_charge_decoration)
    if before != after:
        return 'SCD of %s changed from %r to %r after swapRes(%d,%d) was called on it' % (seq, before, after, i % len(seq), j % len(seq))
    if not close(quiet(child.sequence_charge_decoration), scd_ref(child.seq), 1e-9, 1e-9):
        return 'SCD of the swapped child %s is %r, definition %r' % (child.seq, quiet(child.sequence_charge_decoration), scd_ref(child.seq))
    o = sp(seq)
    quiet(o.get_kappa)
    quiet(o.get_linear_FCR, min(5, len(seq)))
    if not close(quiet(o.get_SCD), scd_ref(seq), 1e-9, 1e-9):
        return 'SCD of %s after other queries differs from the definition' % seq
    return None


CHECKS = {'scd': chk_scd, 'scd_history': chk_scd_history}


def work_patterns(n, seed):
    rng = random.Random(seed + n)
    r = Result(PROP)
    run_checks(r, 'scd', chk_scd, [spell(p, rng) for p in patterns(n)])
    return r


def work_random(seed, count, big):
    rng = random.Random(seed)
    r = Result(PROP)
    seqs = [random_sequence(rng)[:300] for _ in range(count)]
    if big:
        seqs += ['K' * 129, 'E' * 200, 'KE' * 70, 'K' * 100 + 'D' * 100, 'R' * 260,
                 ''.join(rng.choice('KRDE') if rng.random() < 0.92 else 'G' for _ in range(280))]
    run_checks(r, 'scd', chk_scd, seqs)
    run_checks(r, 'scd_history', chk_scd_history, [(s, rng.randint(0, 999), rng.randint(0, 999)) for s in seqs[:count] if len(s) >= 2])
    return r


def tasks(tier, seed):
    nmax = 8 if tier == 'quick' else 11
    t = [('native.c07', 'work_patterns', (n, seed)) for n in range(1, nmax + 1)]
    k = 8 if tier == 'quick' else 48
    t += [('native.c07', 'work_random', (seed * 23 + i, 20, i == 0)) for i in range(k)]
    return t, dict(exhaustive_pattern_length=nmax, random_sequences=k * 20, max_length=300, tolerance='1e-9')
