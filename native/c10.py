"""C10 native: sliding-window profiles (placement, flanks, link to the global parameters, rejection of w > N)."""
import random
from fractions import Fraction as F
from .common import *
from .refs import *

PROP = 'C10'
STD_GROUPS = [['E', 'D'], ['R', 'K'], ['R', 'K', 'E', 'D'], ['Q', 'N', 'S', 'T', 'G', 'H', 'C'], ['A', 'L', 'M', 'I', 'V'],
              ['F', 'Y', 'W'], ['P']]


def stat(kind, win, grp=None):
    w = len(win)
    p = sum(1 for c in win if c in 'KR')
    n = sum(1 for c in win if c in 'DE')
    if kind == 'NCPR':
        return F(p - n, w)
    if kind == 'FCR':
        return F(p + n, w)
    if kind == 'sigma':
        return sigma_of(p, n, w)
    if kind == 'hydropathy':
        return sum(KD_UVERSKY[c] for c in win) / w
    if kind == 'comp':
        return F(sum(1 for c in win if c in grp), w)


def expected_row(seq, w, kind, grp=None):
    N = len(seq)
    row = [F(0)] * N
    for i in range(0, N - w + 1):
        row[i + (w - 1) // 2] = stat(kind, seq[i:i + w], grp)
    return row


def cmp_row(name, seq, w, got, exp):
    import numpy as np
    got = np.asarray(got)
    if got.shape != (len(exp),):
        return '%s(w=%d) on %s: value row has shape %s, expected %d columns' % (name, w, seq, got.shape, len(exp))
    for i, (g, e) in enumerate(zip(got, exp)):
        if not close(g, e, 1e-9, 1e-12):
            return '%s(w=%d) on %s: position %d holds %r, expected %r' % (name, w, seq, i + 1, float(g), float(e))
    return None


def chk_profile(inp):
    seq, w = inp
    o = sp(seq)
    N = len(seq)
    meths = [('get_linear_NCPR', 'NCPR'), ('get_linear_FCR', 'FCR'), ('get_linear_sigma', 'sigma'), ('get_linear_hydropathy', 'hydropathy')]
    if w > N:
        for m, _ in meths:
            r = outcome(getattr(o, m), w)
            if r[0] != 'exc':
                return '%s(w=%d) on a sequence of length %d was answered instead of rejected' % (m, w, N)
        r = outcome(o.get_linear_sequence_composition, w)
        if r[0] != 'exc':
            return 'get_linear_sequence_composition(w=%d) on length %d was answered' % (w, N)
        return None
    for m, kind in meths:
        r = outcome(getattr(o, m), w)
        if r[0] != 'ok':
            return '%s(w=%d) on %s raised %s' % (m, w, seq, r[1])
        a = r[1]
        if len(a) != 2 or list(a[0]) != list(range(1, N + 1)):
            return '%s(w=%d) on %s: position row is %r' % (m, w, seq, list(a[0])[:12])
        msg = cmp_row(m, seq, w, a[1], expected_row(seq, w, kind))
        if msg:
            return msg
    # w == N ties to the global parameters
    if w == N:
        idx = (w - 1) // 2
        for m, g in (('get_linear_NCPR', 'get_NCPR'), ('get_linear_FCR', 'get_FCR'), ('get_linear_hydropathy', 'get_uversky_hydropathy')):
            a = quiet(getattr(o, m), w)[1][idx]
            b = quiet(getattr(o, g))
            if not close(a, b, 1e-9, 1e-12):
                return 'w=N: %s gives %r but %s gives %r on %s' % (m, a, g, b, seq)
    return None


def chk_comp(inp):
    seq, w, groups = inp
    o = sp(seq)
    N = len(seq)
    if w > N:
        return None
    for rep in range(2):        # twice: the default group list is a shared default argument
        r = outcome(o.get_linear_sequence_composition, w) if groups is None else outcome(o.get_linear_sequence_composition, w, [list(g) for g in groups])
        if r[0] != 'ok':
            return 'get_linear_sequence_composition(w=%d, %s) on %s raised %s' % (w, groups, seq, r[1])
        pos, dens = r[1]
        gs = STD_GROUPS if groups is None else groups
        if list(pos) != list(range(1, N + 1)):
            return 'composition profile position row %r' % (list(pos)[:10],)
        import numpy as np
        dens = np.atleast_2d(np.asarray(dens))
        if dens.shape != (len(gs), N):
            return 'composition profile has shape %s, expected (%d,%d) [groups=%s, call %d]' % (dens.shape, len(gs), N, groups, rep + 1)
        for k, g in enumerate(gs):
            msg = cmp_row('composition[%s]' % ''.join(g), seq, w, dens[k], expected_row(seq, w, 'comp', [x.upper() for x in g]))
            if msg:
                return msg + ' [call %d]' % (rep + 1)
    return None


def chk_delta_link(seq):
    """delta is the mean squared deviation of the w=5,6 sigma profiles from the global sigma"""
    o = sp(seq)
    N = len(seq)
    sg = sigma_seq(seq, N)
    tot = F(0)
    for w in (5, 6):
        if w > N:
            continue
        row = quiet(o.get_linear_sigma, w)[1]
        lo = (w - 1) // 2
        vals = [row[i + lo] for i in range(N - w + 1)]
        tot += sum((float(sg) - float(v)) ** 2 for v in vals) / (N - w + 1)
    exp = tot / 2
    d = quiet(o.get_delta)
    if not close(d, exp, 1e-9, 1e-12):
        return 'get_delta(%s)=%r but the sigma profiles give %r' % (seq, d, float(exp))
    return None


CHECKS = {'profile': chk_profile, 'comp': chk_comp, 'delta_link': chk_delta_link}


def work(seed, count, exhaustive_n):
    rng = random.Random(seed)
    r = Result(PROP)
    seqs = [random_sequence(rng)[:rng.choice([8, 13, 20, 31, 50])] for _ in range(count)]
    if exhaustive_n:
        seqs += [spell(p, rng) for p in patterns(exhaustive_n)]
    inps = []
    for s in seqs:
        N = len(s)
        ws = set([1, 2, 3, 4, 5, 6, 7, 8, 12, N - 1, N, N + 1, N + 2, N + 3]) if N > 9 else set(range(1, N + 4))
        inps += [(s, w) for w in sorted(ws) if w >= 1]
    run_checks(r, 'profile', chk_profile, inps)
    cin = []
    for s in seqs[:count]:
        N = len(s)
        for w in (1, 2, 5, 6, N):
            if w <= N:
                cin.append((s, w, None))
                letters = list(AA20)
                rng.shuffle(letters)
                k = rng.randint(1, 4)
                gs = [[(x.lower() if rng.random() < 0.3 else x) for x in letters[i::k][:rng.randint(1, 6)]] for i in range(k)]
                cin.append((s, w, gs))
                # a group may name a residue more than once (also in both cases): it still counts each residue once
                c1, c2 = rng.choice(s), rng.choice(AA20)
                cin.append((s, w, [[c1, c1.lower(), c2], [c2, c2, c1]]))
    run_checks(r, 'comp', chk_comp, cin)
    run_checks(r, 'delta_link', chk_delta_link, seqs[:count])
    return r


def tasks(tier, seed):
    k = 12 if tier == 'quick' else 64
    ex = [1, 2, 3, 4, 5] if tier == 'quick' else [1, 2, 3, 4, 5, 6, 7]
    t = [('native.c10', 'work', (seed * 37 + i, 10, ex[i] if i < len(ex) else 0)) for i in range(k)]
    return t, dict(random_sequences=k * 10, exhaustive_pattern_lengths=ex, windows='1..N+3 for N<=9, else {1..8,12,N-1..N+3}')
