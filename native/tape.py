"""Tape-driven replacement of `random.Random` injected into the repository modules by the harness
(module attribute `rng` is replaced; no repository edit)."""
import random as _random


class NeedChoice(Exception):
    def __init__(self, n):
        self.n = n


class TapeCap(Exception):
    pass


class ScriptRandom:
    """every draw is a choice point taken from a script (exhaustive enumeration of outcomes)"""

    MAXDEPTH = 14

    def __init__(self, script, log=None):
        self.script = script
        self.pos = 0
        self.log = log if log is not None else []

    def seed(self, *a):
        pass

    def _choose(self, n):
        if n <= 0:
            raise ValueError('empty range for choice')
        if n == 1:
            return 0
        if self.pos >= self.MAXDEPTH:
            raise TapeCap()
        if self.pos < len(self.script):
            c = self.script[self.pos]
            self.pos += 1
            return c
        raise NeedChoice(n)

    def randint(self, a, b):
        if b < a:
            raise ValueError('empty range for randrange() (%d, %d, %d)' % (a, b + 1, b + 1 - a))
        return a + self._choose(b - a + 1)

    def random(self):
        return (0.25, 0.75)[self._choose(2)]

    def sample(self, population, k):
        if isinstance(population, (set, frozenset, dict)):
            raise TypeError('Population must be a sequence.  For dicts or sets, use sorted(d).')
        pool = list(population)
        if k > len(pool) or k < 0:
            raise ValueError('Sample larger than population or is negative')
        out = []
        for _ in range(k):
            out.append(pool.pop(self._choose(len(pool))))
        return out

    def shuffle(self, x):
        n = len(x)
        items = list(x)
        out = []
        for _ in range(n):
            out.append(items.pop(self._choose(len(items))))
        x[:] = out

    def choice(self, seq):
        return seq[self._choose(len(seq))]


class SeededRandom(_random.Random):
    """seeded stream that ignores the code's own re-seeding with time.time(); counts draws"""

    def __init__(self, seed, cap=10 ** 6):
        super().__init__(seed)
        self.draws = 0
        self.cap = cap

    def seed(self, *a, **k):
        if not hasattr(self, 'draws'):
            super().seed(*a, **k)

    def _tick(self):
        self.draws += 1
        if self.draws > self.cap:
            raise TapeCap()

    def randint(self, a, b):
        self._tick()
        return super().randint(a, b)

    def random(self):
        self._tick()
        return super().random()

    def sample(self, population, k):
        self._tick()
        if isinstance(population, (set, frozenset, dict)):
            raise TypeError('Population must be a sequence.  For dicts or sets, use sorted(d).')
        return super().sample(population, k)

    def shuffle(self, x):
        self._tick()
        return super().shuffle(x)


class FakeRng:
    """stands in for the `random` module inside a repository module"""

    def __init__(self, factory):
        self.factory = factory

    def Random(self, *a):
        return self.factory()


def enumerate_outcomes(run, max_outcomes=5000):
    """run(script_random) -> result ; yields (script, result) for every complete script"""
    stack = [[]]
    n = 0
    while stack:
        script = stack.pop()
        sr = ScriptRandom(script)
        try:
            res = run(sr)
        except NeedChoice as nc:
            for i in reversed(range(nc.n)):
                stack.append(script + [i])
            continue
        n += 1
        yield script, res
        if n >= max_outcomes:
            return
