"""C15 native: read-only queries are history independent and never change the object."""
import random
from .common import *
from .refs import *

PROP = 'C15'


def norm(v):
    import numpy as np
    if isinstance(v, np.ndarray):
        return ('nd', v.shape, [norm(x) for x in v.tolist()])
    if isinstance(v, (list, tuple)):
        return [norm(x) for x in v]
    if isinstance(v, dict):
        return {k: norm(x) for k, x in sorted(v.items())}
    if isinstance(v, (np.floating,)):
        return float(v)
    if isinstance(v, (np.integer,)):
        return int(v)
    return v


def calls_for(seq, rng):
    N = len(seq)
    w = rng.randint(1, N)
    ph = rng.choice([0, 3.5, 7.0, 7.4, 10.5, 14])
    letters = list(AA20)
    rng.shuffle(letters)
    g1, g2 = letters[:rng.randint(1, 6)], letters[6:6 + rng.randint(0, 5)]
    size = rng.choice([2, 3, 4, 5, 6, 8, 10, 11, 12, 15, 18, 20])
    c = [('get_sequence',), ('get_length',), ('__len__',), ('__str__',), ('get_mean_hydropathy',), ('get_uversky_hydropathy',),
         ('get_WW_hydropathy',), ('get_fraction_disorder_promoting',), ('get_amino_acid_fractions',), ('get_SCD',), ('get_kappa',),
         ('get_Omega',), ('get_Omega_sequence',), ('get_kappa_X', g1, g2 or None), ('get_kappa_X', g1), ('get_deltaMax',),
         ('get_deltaMax', True), ('get_delta',), ('get_countPos',), ('get_countNeg',), ('get_countNeut',), ('get_fraction_positive',),
         ('get_fraction_negative',), ('get_FCR',), ('get_FCR', ph), ('get_fraction_expanding',), ('get_fraction_expanding', ph),
         ('get_NCPR',), ('get_NCPR', ph), ('get_mean_net_charge',), ('get_mean_net_charge', ph), ('get_isoelectric_point',),
         ('get_molecular_weight',), ('get_phasePlotRegion',), ('get_phosphosites',), ('get_kappa_after_phosphorylation',),
         ('get_all_phosphorylatable_sites',), ('get_full_phosphostatus_kappa_distribution',), ('get_phosphosequence',),
         ('get_PPII_propensity', rng.choice(['hilser', 'creamer', 'kallenbach'])), ('get_linear_sigma', w), ('get_linear_NCPR', w),
         ('get_linear_FCR', w), ('get_linear_hydropathy', w), ('get_linear_sequence_composition', w),
         ('get_linear_sequence_composition', w, [g1, g2] if g2 else [g1]), ('get_reduced_alphabet_sequence', size),
         ('get_linear_complexity', rng.choice(['WF', 'LC', 'LZW']), size, {}, w, rng.randint(1, N)), ('get_HTMLColorString',)]
    return c


def do_call(o, call):
    name, args = call[0], call[1:]
    args = [list(a) if isinstance(a, list) else a for a in args]
    if name == '__len__':
        return outcome(lambda: len(o))
    if name == '__str__':
        return outcome(lambda: str(o))
    return outcome(getattr(o, name), *args)


def chk_history(inp):
    seqs, sites, seed, length = inp
    rng = random.Random(seed)
    objs = []
    for s, ps in zip(seqs, sites):
        o = sp(s)
        if ps:
            quiet(o.set_phosphosites, list(ps))
        objs.append(o)
    exp_sites = [quiet(o.get_phosphosites) for o in objs]
    hist = []
    for step in range(length):
        k = rng.randrange(len(objs))
        o, s = objs[k], seqs[k]
        calls = calls_for(s, rng)
        if rng.random() < 0.35:       # cache-sensitive queries more often
            calls = [c for c in calls if c[0] in ('get_kappa', 'get_deltaMax', 'get_Omega', 'get_kappa_X', 'get_kappa_after_phosphorylation',
                                                  'get_full_phosphostatus_kappa_distribution', 'get_delta')]
        call = rng.choice(calls)
        hist.append((k, call[0]))
        got = do_call(o, call)
        f = sp(s)
        if sites[k]:
            quiet(f.set_phosphosites, list(sites[k]))
        exp = do_call(f, call)
        if norm(got) != norm(exp):
            return 'call %d: %s%r on object %d (%s) returned %r after history %s, a fresh object returns %r' % (
                step, call[0], call[1:], k, s, str(norm(got))[:200], hist[-8:], str(norm(exp))[:200])
        if quiet(o.get_sequence) != s or o.SeqObj.seq != s:
            return 'stored sequence changed to %r after %s' % (o.SeqObj.seq, hist[-5:])
        if quiet(o.get_phosphosites) != exp_sites[k]:
            return 'phosphosite list changed from %r to %r after %s%r (history %s)' % (exp_sites[k], quiet(o.get_phosphosites), call[0], call[1:], hist[-5:])
    return None


CHECKS = {'history': chk_history}


def work(seed, count, length):
    rng = random.Random(seed)
    r = Result(PROP)
    inps = []
    for _ in range(count):
        n = rng.randint(1, 3)
        seqs, sites = [], []
        for _ in range(n):
            kind = rng.choice(['uniform', 'polyampholyte', 'polyelectrolyte', 'short', 'neutral', 'idp'])
            s = random_sequence(rng, kind=kind)[:rng.choice([1, 2, 4, 6, 9, 14, 30])]
            if rng.random() < 0.3:
                s = ''.join(rng.choice('KRST' if rng.random() < 0.5 else 'EDSY') for _ in range(rng.randint(3, 10)))
            elif rng.random() < 0.15:
                s = spell(rng.choice(['+-----+', '+----0+', '+0---0+', '++-----++', '++----0+', '++0----+', '+++-----+', '++++', '--', '+0-0']), rng)
            sty = [i + 1 for i, c in enumerate(s) if c in 'STY']
            rng.shuffle(sty)
            seqs.append(s)
            sites.append(sty[:rng.randint(0, 3)] if rng.random() < 0.5 else [])
        inps.append((seqs, sites, rng.randint(0, 10 ** 6), length))
    run_checks(r, 'history', chk_history, inps)
    return r


def tasks(tier, seed):
    k = 32 if tier == 'quick' else 96
    length = 12 if tier == 'quick' else 40
    return [('native.c15', 'work', (seed * 71 + i, 20 if tier == 'quick' else 30, length)) for i in range(k)], dict(
        random_histories=(20 if tier == 'quick' else 30) * k, calls_per_history=length, live_objects='1..3', api_calls=49)
