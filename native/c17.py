"""C17 native: shuffles and moves only rearrange, keep frozen sites, stay self-consistent."""
import random
from collections import Counter
from .common import *
from .refs import *
from .tape import *

PROP = 'C17'
MOVES = ('swapRandChargeRes', 'full_shuffle', 'permute_block_swap', 'permute_cluster_charges', 'swapRes')


def snapshot(o):
    return (o.seq, [int(x) for x in o.chargePattern], o.len, list(o.phosphosites))


def check_child(parent_snap, parent, child, frozen, move, light=False):
    from localcider.backend.sequence import Sequence
    pseq = parent_snap[0]
    if not isinstance(child, Sequence):
        return '%s returned %r' % (move, child)
    if Counter(child.seq) != Counter(pseq) or len(child.seq) != len(pseq):
        return '%s on %s returned %s, which is not a rearrangement' % (move, pseq, child.seq)
    for i in frozen:
        if 0 <= i < len(pseq) and child.seq[i] != pseq[i]:
            return 'FROZEN %s on %s with frozen %s moved position %d: %s' % (move, pseq, sorted(frozen), i, child.seq)
    if child.len != len(child.seq):
        return '%s: child len field %r for sequence of length %d' % (move, child.len, len(child.seq))
    cp = [int(x) for x in child.chargePattern]
    if cp != [charge(c) for c in child.seq] or len(child.chargePattern) != len(child.seq):
        return '%s on %s: child %s carries charge pattern %s' % (move, pseq, child.seq, cp)
    if light:
        if snapshot(parent) != parent_snap:
            return '%s altered the object it was called on: %r -> %r' % (move, parent_snap, snapshot(parent))
        return None
    fresh = Sequence(child.seq)
    if child.dmax != -1:
        fd = quiet(fresh.deltaMax)
        if not close(child.dmax, fd, 1e-12, 1e-14):
            return '%s: child %s carries delta-max %r but a fresh object has %r' % (move, child.seq, child.dmax, fd)
    for m in ('kappa', 'FCR', 'NCPR', 'countPos', 'countNeg', 'countNeut', 'delta', 'sequence_charge_decoration', 'sigma'):
        a, b = outcome(getattr(child, m)), outcome(getattr(Sequence(child.seq), m))
        if a[0] != b[0] or (a[0] == 'ok' and not close(a[1], b[1], 1e-12, 1e-14)):
            return '%s: %s of the child %s is %r, of a fresh object %r' % (move, m, child.seq, a, b)
    if snapshot(parent) != parent_snap:
        return '%s altered the object it was called on: %r -> %r' % (move, parent_snap, snapshot(parent))
    return None


def do_move(obj, move, frozen, extra=None):
    if move == 'swapRes':
        return quiet(obj.swapRes, extra[0] % obj.len, extra[1] % obj.len)
    if frozen is None:
        return quiet(getattr(obj, move))
    return quiet(getattr(obj, move), frozen)


def chk_chain(inp):
    """a chain of moves under a seeded RNG stream"""
    seq, frozen, moves, seed, cache = inp
    import localcider.backend.sequence as S
    old = S.rng
    r = SeededRandom(seed, cap=4000)
    S.rng = FakeRng(lambda: r)
    try:
        cur = S.Sequence(seq)
        if cache:
            quiet(cur.deltaMax)
        fz = set(frozen)
        for k, mv in enumerate(moves):
            snap = snapshot(cur)
            try:
                child = do_move(cur, mv, fz if mv != 'swapRes' else None, (r.randint(0, 999), r.randint(0, 999)))
            except TapeCap:
                return None        # retry loop of a block move did not finish under the cap: inconclusive
            except Exception as e:  # noqa
                if mv in ('swapRandChargeRes', 'full_shuffle', 'swapRes'):
                    return '%s raised %s on %s (frozen %s)' % (mv, type(e).__name__, cur.seq, sorted(fz))
                return None        # block moves may legitimately refuse (too few charges / too short)
            fzc = fz if mv != 'swapRes' else set()
            msg = check_child(snap, cur, child, fzc, mv)
            if msg:
                return 'step %d of chain %s from %s: %s' % (k, moves, seq, msg)
            if child is not cur:
                cur = child
        return None
    finally:
        S.rng = old


def chk_api(inp):
    seq, frozen, seed = inp
    import localcider.backend.sequence as S
    from localcider.sequenceParameters import SequenceParameters
    from localcider.sequencePermutants import SequencePermutants
    old = S.rng
    r = SeededRandom(seed)
    S.rng = FakeRng(lambda: r)
    try:
        o = sp(seq)
        snap = snapshot(o.SeqObj)
        for fz in (set(frozen), list(frozen), tuple(frozen)):
            c = outcome(o.get_shuffled_sequence, fz)
            if c[0] != 'ok':
                return 'get_shuffled_sequence(%r) on %s raised %s' % (fz, seq, c[1])
            if not isinstance(c[1], SequenceParameters):
                return 'get_shuffled_sequence returned %r' % (c[1],)
            m = check_child(snap, o.SeqObj, c[1].SeqObj, set(frozen), 'get_shuffled_sequence')
            if m:
                return m
        c = outcome(o.get_shuffled_sequence)
        if c[0] != 'ok':
            return 'get_shuffled_sequence() raised %s' % c[1]
        m = check_child(snap, o.SeqObj, c[1].SeqObj, set(), 'get_shuffled_sequence')
        if m:
            return m
        p = quiet(SequencePermutants, seq)
        snap2 = snapshot(p.SeqObj)
        c = outcome(p.get_permutant)
        if c[0] != 'ok':
            return 'get_permutant on %s raised %s' % (seq, c[1])
        m = check_child(snap2, p.SeqObj, c[1].SeqObj, set(), 'get_permutant')
        if m:
            return m
        if quiet(c[1].get_sequence) != c[1].SeqObj.seq or quiet(c[1].get_length) != len(seq):
            return 'get_permutant object inconsistent'
        return None
    finally:
        S.rng = old


def chk_exhaustive(inp):
    """every outcome of the internal random choices of one move on a short sequence"""
    seq, frozen, move = inp
    import localcider.backend.sequence as S
    old = S.rng
    try:
        count = 0
        fz = set(frozen)

        def run(sr):
            S.rng = FakeRng(lambda: sr)
            o = S.Sequence(seq)
            snap = snapshot(o)
            try:
                child = do_move(o, move, fz)
            except NeedChoice:
                raise
            except TapeCap:
                return None
            except Exception as e:      # noqa
                return '%s raised %s on %s (frozen %s)' % (move, type(e).__name__, seq, sorted(fz))
            return check_child(snap, o, child, fz, move, light=len(sr.script) % 7 != 0)
        for script, msg in enumerate_outcomes(run, 3000):
            count += 1
            if msg:
                return 'random outcome %s: %s' % (script, msg)
        return None
    finally:
        S.rng = old


def finding_key(f):
    m = f.get('message', '')
    if 'FROZEN' in m:
        for mv in ('permute_block_swap', 'permute_cluster_charges'):
            if mv in m.split('FROZEN')[1][:40]:
                return 'frozen-ignored:' + mv
    return None


CHECKS = {'chain': chk_chain, 'api': chk_api, 'exhaustive': chk_exhaustive}


def work(seed, count):
    rng = random.Random(seed)
    r = Result(PROP)
    chains, apis = [], []
    for _ in range(count):
        s = random_sequence(rng, kind=rng.choice(['uniform', 'polyampholyte', 'idp', 'polyelectrolyte', 'short', 'neutral']))[:rng.choice([1, 2, 3, 5, 8, 13, 30])]
        N = len(s)
        fz = sorted(set(rng.randint(-2, N + 2) for _ in range(rng.randint(0, max(1, N // 2)))))
        mv = [rng.choice(MOVES) for _ in range(rng.randint(1, 6))]
        chains.append((s, fz, mv, rng.randint(0, 10 ** 6), rng.random() < 0.5))
        # swap-only chains (the sampler's most frequent move)
        chains.append((s, fz, ['swapRandChargeRes'] * rng.randint(2, 5), rng.randint(0, 10 ** 6), rng.random() < 0.5))
        apis.append((s, fz, rng.randint(0, 10 ** 6)))
    run_checks(r, 'chain', chk_chain, chains)
    run_checks(r, 'api', chk_api, apis)
    for f in r.failures:
        f['finding_key'] = finding_key(f)
    return r


def work_exhaustive(seqs, seed):
    rng = random.Random(seed)
    r = Result(PROP)
    inps = []
    for s in seqs:
        N = len(s)
        for fz in ([], [0], [N - 1], sorted(set(rng.randint(0, N - 1) for _ in range(2)))):
            inps.append((s, fz, 'swapRandChargeRes'))
            if N <= 5:
                inps.append((s, fz, 'full_shuffle'))
        if N >= 4:
            inps.append((s, [], 'permute_block_swap_once'))
    run_checks(r, 'exhaustive', chk_exhaustive, [i for i in inps if i[2] != 'permute_block_swap_once'])
    run_checks(r, 'block_once', chk_block_once, [(i[0],) for i in inps if i[2] == 'permute_block_swap_once'])
    for f in r.failures:
        f['finding_key'] = finding_key(f)
    return r


def chk_block_once(inp):
    """every random outcome of the first iteration of permute_block_swap / permute_cluster_charges
    (the retry loop is cut after its first proposal by making delta report a change)"""
    (seq,) = inp
    import localcider.backend.sequence as S
    old = S.rng
    try:
        for move in ('permute_block_swap', 'permute_cluster_charges'):
            def run(sr):
                S.rng = FakeRng(lambda: sr)
                o = S.Sequence(seq)
                snap = snapshot(o)
                calls = [0]
                real_init = S.Sequence.__init__
                made = []

                class StopMove(Exception):
                    pass

                def spy_init(self, *a, **k):
                    real_init(self, *a, **k)
                    made.append(self)
                    raise StopMove()        # cut the retry loop after its first proposal
                S.Sequence.__init__ = spy_init
                try:
                    try:
                        quiet(getattr(o, move))
                    except NeedChoice:
                        raise
                    except Exception:       # noqa  (StopMove, TapeCap, refusal of the move)
                        pass
                finally:
                    S.Sequence.__init__ = real_init
                for ch in made[:1]:
                    m = check_child(snap, o, ch, set(), move, light=True)
                    if m:
                        return m
                return None
            n = 0
            for script, msg in enumerate_outcomes(run, 1500):
                n += 1
                if msg:
                    return 'random outcome %s: %s' % (script, msg)
        return None
    finally:
        S.rng = old


CHECKS['block_once'] = chk_block_once


def tasks(tier, seed):
    k = 12 if tier == 'quick' else 64
    t = [('native.c17', 'work', (seed * 67 + i, 12)) for i in range(k)]
    rng = random.Random(seed)
    nmax = 5 if tier == 'quick' else 6
    short = ['K', 'KE', 'GG', 'KEG', 'KRDE', 'KEGG', 'GKGE', 'KKKK', 'KEKEG', 'GGGGK', 'EKEKDRAG', 'KEDG' * 2, 'KEKEKEGG'] + \
            [spell(''.join(rng.choice('+-0') for _ in range(rng.randint(2, nmax))), rng) for _ in range(12 if tier == 'quick' else 40)]
    kk = 8
    t += [('native.c17', 'work_exhaustive', (short[i::kk], seed + i)) for i in range(kk)]
    return t, dict(random_chains=24 * k, chain_length='1..6 moves', exhaustive_random_outcomes_for_sequences_up_to=nmax,
                   retry_loops='block/cluster moves capped at 4000 RNG draws (capped = inconclusive)')
