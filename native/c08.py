"""C08 native: diagram-of-states region for every composition triple against exact rational thresholds."""
import random
from .common import *
from .refs import *

PROP = 'C08'
ANNOT = {1: 'Globule/Tadpole', 2: 'Boundary Region', 3: 'Coils,Hairpins and Chimeras', 4: 'Negatively Charged Swollen Coils',
         5: 'Positively Charged Swollen Coils'}


def chk_region(inp):
    p, n, N, seed = inp
    rng = random.Random(seed)
    exp = region_ref(p, n, N)
    for s in (seq_of_composition(p, n, N - p - n, rng), seq_of_composition(p, n, N - p - n, None)):
        r = outcome(sp(s).get_phasePlotRegion)
        if r != ('ok', exp):
            return 'get_phasePlotRegion for (n+,n-,N)=(%d,%d,%d) [%s] -> %r, thresholds give %r' % (p, n, N, s if N < 60 else s[:50] + '..', r, exp)
        a = outcome(backend_seq(s).phasePlotAnnotation)
        if a != ('ok', ANNOT[exp]):
            return 'phasePlotAnnotation for (%d,%d,%d) -> %r' % (p, n, N, a)
    return None


def chk_region_history(inp):
    """the region of an object that has answered other queries (phosphorylation, cached searches, profiles) is still the region of its sequence"""
    p, n, N, seed = inp
    rng = random.Random(seed)
    z = N - p - n
    neutral = ''.join(rng.choice('STYGAQ') for _ in range(z))
    s = list('K' * p + 'E' * n + neutral)
    rng.shuffle(s)
    s = ''.join(s)
    o = sp(s)
    disturb(o, s, rng)
    r = outcome(o.get_phasePlotRegion)
    exp = region_ref(p, n, N)
    if r != ('ok', exp):
        return 'get_phasePlotRegion of %s after other queries on the same object -> %r, thresholds give %r' % (s, r, exp)
    return None


CHECKS = {'region': chk_region, 'region_history': chk_region_history}


def work(Ns, seed):
    r = Result(PROP)
    inps = []
    for N in Ns:
        for p in range(N + 1):
            for n in range(N + 1 - p):
                inps.append((p, n, N, seed + N))
    run_checks(r, 'region', chk_region, inps)
    rng = random.Random(seed)
    hist = [i for i in inps if 2 <= i[2] <= 30 and i[2] - i[0] - i[1] >= 1]
    rng.shuffle(hist)
    run_checks(r, 'region_history', chk_region_history, hist[:40])
    return r


def tasks(tier, seed):
    nmax = 48 if tier == 'quick' else 120
    Ns = list(range(1, nmax + 1)) + ([60, 80, 100] if tier == 'quick' else [140, 160, 200])
    k = 32
    chunks = [Ns[i::k] for i in range(k)]
    return [('native.c08', 'work', (c, seed)) for c in chunks if c], dict(every_triple_with_N_up_to=nmax, extra_N=Ns[nmax:],
                                                                        realisations_per_triple=2)
