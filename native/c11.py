"""C11 native: complexity profiles (window count, positions, range, locality, WF = entropy, rejections)."""
import random
import math
from .common import *
from .refs import *

PROP = 'C11'
SIZES = [2, 3, 4, 5, 6, 8, 10, 11, 12, 15, 18, 20]


def reduce_ref(seq, size):
    m = {}
    for g in ALPHABETS[size]:
        for c in g:
            m[c] = g
    return [m[c] for c in seq]        # group names as letters-classes


def chk_cx(inp):
    seq, ctype, size, ua, w, s, word = inp
    o = sp(seq)
    N = len(seq)
    kw = dict(complexityType=ctype, alphabetSize=size, blobLen=w, stepSize=s, wordSize=word)
    if ua:
        kw['userAlphabet'] = ua
    r = outcome(o.get_linear_complexity, **kw)
    if w > N:
        return None if r[0] == 'exc' else 'window %d longer than the sequence (%d) was answered' % (w, N)
    if r[0] != 'ok':
        return 'get_linear_complexity(%s) on %s raised %s' % (kw, seq, r[1])
    a = r[1]
    K = (N - w) // s + 1
    import numpy as np
    a = np.asarray(a)
    if a.shape != (2, K):
        return 'get_linear_complexity(%s) on %s (N=%d): shape %s, expected (2,%d)' % (kw, seq, N, a.shape, K)
    pos = [float(x) for x in a[0]]
    if any(p != int(p) for p in pos) or not all(1 <= p <= N for p in pos) or any(b <= a_ for a_, b in zip(pos, pos[1:])):
        return 'positions %s not strictly increasing inside 1..%d (%s)' % (pos[:8] + pos[-3:], N, kw)
    vals = [float(x) for x in a[1]]
    if not all(-1e-12 <= v <= 1 + 1e-9 for v in vals):
        return 'values outside [0,1]: %s (%s on %s)' % ([v for v in vals if not -1e-12 <= v <= 1 + 1e-9][:3], kw, seq)
    # locality: each value equals the value of the window alone
    for k in (0, K // 2, K - 1):
        win = seq[k * s:k * s + w]
        kw2 = dict(kw)
        kw2['stepSize'] = 1
        r2 = outcome(sp(win).get_linear_complexity, **kw2)
        if r2[0] != 'ok':
            return 'window %s alone raised %s' % (win, r2[1])
        v2 = float(np.asarray(r2[1])[1][0])
        if not close(vals[k], v2, 1e-12, 1e-14):
            return 'value %d (%r) differs from the value of its own window %s alone (%r) [%s]' % (k, vals[k], win, v2, kw)
    if ctype.upper() == 'WF':
        if ua:
            red = [ua[c] for c in seq]
            A = len(set(ua.values()))
        else:
            red = reduce_ref(seq, size)
            A = size
        for k in (0, K // 3, K - 1):
            e = entropy_ref(red[k * s:k * s + w], A)
            if not close(vals[k], e, 1e-9, 1e-12):
                return 'WF value of window %d is %r, Shannon entropy to base %d of the reduced window is %r (%s on %s)' % (k, vals[k], A, e, kw, seq)
    return None


def chk_reject(seq):
    o = sp(seq)
    for bad in ('XX', 'wf2', '', 'LCC'):
        r = outcome(o.get_linear_complexity, complexityType=bad, blobLen=min(3, len(seq)))
        if r[0] != 'exc':
            return 'unknown complexity type %r accepted' % bad
    for t in ('wf', 'Lc', 'lzw'):
        r = outcome(o.get_linear_complexity, complexityType=t, blobLen=min(3, len(seq)))
        if r[0] != 'ok':
            return 'complexity type %r (case variant) rejected with %s' % (t, r[1])
    for t in ('WF', 'LC', 'LZW'):
        r = outcome(o.get_linear_complexity, complexityType=t, blobLen=len(seq) + 1)
        if r[0] != 'exc':
            return '%s with a window longer than the sequence was answered' % t
    return None


def chk_wf_props(inp):
    seq, size, seed = inp
    rng = random.Random(seed)
    o = sp(seq)
    N = len(seq)
    import numpy as np
    v = float(np.asarray(quiet(o.get_linear_complexity, 'WF', size, {}, N, 1))[1][0])
    l = list(seq)
    rng.shuffle(l)
    v2 = float(np.asarray(quiet(sp(''.join(l)).get_linear_complexity, 'WF', size, {}, N, 1))[1][0])
    if not close(v, v2, 1e-9, 1e-12):
        return 'WF changes under permuting the window: %r vs %r (%s, size %d)' % (v, v2, seq, size)
    h = seq[0] * N
    v3 = float(np.asarray(quiet(sp(h).get_linear_complexity, 'WF', size, {}, N, 1))[1][0])
    if v3 != 0:
        return 'WF of a homopolymeric window %s is %r' % (h, v3)
    # two calls on ONE object with different alphabets (same window)
    o2 = sp(seq)
    for sz in (20, size, 2, size):
        got = float(np.asarray(quiet(o2.get_linear_complexity, 'WF', sz, {}, N, 1))[1][0])
        exp = entropy_ref(reduce_ref(seq, sz), sz)
        if not close(got, exp, 1e-9, 1e-12):
            return 'WF(size %d) on one object after other alphabet sizes = %r, entropy = %r (%s)' % (sz, got, exp, seq)
    return None


def chk_cx_history(inp):
    """several profiles on ONE object with different user alphabets / sizes: each equals the profile of a fresh object"""
    seq, seed = inp
    rng = random.Random(seed)
    o = sp(seq)
    N = len(seq)
    import numpy as np
    for step in range(4):
        kw = dict(complexityType=rng.choice(['WF', 'LC', 'LZW']), blobLen=rng.randint(2, N), stepSize=rng.choice([1, 2]), wordSize=1)
        if rng.random() < 0.7:
            kw['userAlphabet'] = rand_user_alphabet(rng)
        else:
            kw['alphabetSize'] = rng.choice(SIZES)
        a, b = outcome(o.get_linear_complexity, **kw), outcome(sp(seq).get_linear_complexity, **kw)
        if a[0] != b[0] or (a[0] == 'ok' and not np.allclose(np.asarray(a[1], dtype=float), np.asarray(b[1], dtype=float), rtol=1e-12, atol=1e-14)):
            return 'call %d on one object: get_linear_complexity(%s) on %s differs from a fresh object: %r vs %r' % (step + 1, kw, seq, a, b)
    return None


CHECKS = {'cx': chk_cx, 'reject': chk_reject, 'wf_props': chk_wf_props, 'cx_history': chk_cx_history}


def rand_user_alphabet(rng):
    k = rng.randint(2, 8)
    reps = rng.sample(AA20, k)
    ua = {a: rng.choice(reps) for a in AA20}
    for i, r_ in enumerate(reps):      # make sure at least two letters are used
        ua[AA20[i]] = r_
    return ua


def work(seed, count):
    rng = random.Random(seed)
    r = Result(PROP)
    inps = []
    for _ in range(count):
        seq = random_sequence(rng)[:rng.choice([1, 2, 3, 5, 8, 12, 20, 33, 60])]
        N = len(seq)
        for _ in range(8):
            ctype = rng.choice(['WF', 'LC', 'LZW', 'wf', 'lc'])
            size = rng.choice(SIZES)
            ua = rand_user_alphabet(rng) if rng.random() < 0.25 else None
            w = rng.choice([1, 2, N, max(1, N - 1), N + 1]) if rng.random() < 0.4 else rng.randint(1, N)
            s = rng.choice([1, 1, 2, 3, N]) if rng.random() < 0.6 else rng.randint(1, N)
            word = rng.randint(1, 6)
            if ctype.upper() == 'LC' and w - word < 1:
                word = max(1, min(word, w - 1)) if w > 1 else 1
            inps.append((seq, ctype, size, ua, w, s, word))
    # the K == N corner: window 1, step 1
    for n in (1, 2, 3, 7, 10, 21):
        s_ = ''.join(rng.choice(AA20) for _ in range(n))
        for t in ('WF', 'LC', 'LZW'):
            inps.append((s_, t, 20, None, 1, 1, 1))
    run_checks(r, 'cx', chk_cx, inps)
    seqs = [random_sequence(rng)[:rng.choice([3, 6, 10, 25])] for _ in range(count)]
    run_checks(r, 'reject', chk_reject, seqs[:count // 2 + 1])
    run_checks(r, 'cx_history', chk_cx_history, [(s, rng.randint(0, 10 ** 6)) for s in seqs if len(s) >= 3])
    run_checks(r, 'wf_props', chk_wf_props, [(s, rng.choice(SIZES), rng.randint(0, 10 ** 6)) for s in seqs])
    return r


def tasks(tier, seed):
    k = 12 if tier == 'quick' else 64
    return [('native.c11', 'work', (seed * 41 + i, 10)) for i in range(k)], dict(
        random_sequences=k * 20, configurations_per_sequence=8, types='WF/LC/LZW', alphabet_sizes=SIZES,
        user_alphabets='random, >= 2 letters', windows='1..N (+N+1)', steps='1..N', word_sizes='1..6')
