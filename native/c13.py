"""C13 native: sequence strings are normalised or rejected."""
import random
from .common import *
from .refs import *

PROP = 'C13'
WS = [' ', '\t', '\n', '\r', '\x0b', '\x0c', ' ', ' ', '　']


def normalise(s):
    """the statement: upper-case, delete whitespace; valid iff a non-empty word over the 20 letters"""
    if not isinstance(s, str) or type(s) is not str:
        return None
    u = s.upper()
    w = ''.join(c for c in u if not c.isspace())
    if w and all(c in AA20 for c in w):
        return w
    return None


def chk_string(s):
    exp = normalise(s)
    r = outcome(sp, s)
    if exp is None:
        if r[0] != 'exc':
            return 'constructing from %r succeeded (sequence %r) but the input is not a valid sequence' % (s, quiet(r[1].get_sequence))
        return None
    if r[0] != 'ok':
        return 'constructing from %r raised %s but it normalises to %s' % (s, r[1], exp)
    o = r[1]
    if quiet(o.get_sequence) != exp or quiet(o.get_length) != len(exp) or len(o) != len(exp):
        return 'object from %r has sequence %r / length %r / len %r, expected %s' % (s, quiet(o.get_sequence), quiet(o.get_length), len(o), exp)
    if str(o) != exp and exp not in str(o):
        pass
    f = sp(exp)
    w = min(3, len(exp))
    for m, args in (('get_FCR', ()), ('get_NCPR', ()), ('get_kappa', ()), ('get_mean_hydropathy', ()), ('get_SCD', ()),
                    ('get_fraction_positive', ()), ('get_fraction_negative', ()), ('get_fraction_expanding', ()),
                    ('get_countNeut', ()), ('get_delta', ()), ('get_molecular_weight', ()), ('get_phasePlotRegion', ()),
                    ('get_uversky_hydropathy', ()), ('get_isoelectric_point', ()), ('get_Omega', ()),
                    ('get_HTMLColorString', ())):
        a, b = outcome(getattr(o, m), *args), outcome(getattr(f, m), *args)
        if a != b:
            return '%s differs: object from %r gives %r, object from the normalised word %s gives %r' % (m, s, a, exp, b)
    a = outcome(o.get_linear_NCPR, w)
    b = outcome(f.get_linear_NCPR, w)
    if a[0] != b[0] or (a[0] == 'ok' and a[1].tolist() != b[1].tolist()):
        return 'get_linear_NCPR differs between object from %r and from %s' % (s, exp)
    return None


def chk_nonstring(tag):
    class S(str):
        pass
    vals = {'none': None, 'bytes': b'ACDE', 'int': 5, 'list': ['A', 'C'], 'strsub': S('ACDE'), 'float': 1.5, 'tuple': ('A',), 'dict': {'A': 1}}
    v = vals[tag]
    r = outcome(sp, v)
    if r[0] != 'exc':
        return 'non-string %r accepted' % (v,)
    return None


CHECKS = {'string': chk_string, 'nonstring': chk_nonstring}


def work(seed, count, cps):
    rng = random.Random(seed)
    r = Result(PROP)
    ins = []
    for _ in range(count):
        s = random_sequence(rng)[:rng.choice([1, 2, 5, 12, 40])]
        t = ''.join((c.lower() if rng.random() < 0.4 else c) + (rng.choice(WS) * rng.randint(1, 2) if rng.random() < 0.2 else '') for c in s)
        t = rng.choice(['', ' ', '\n']) + t + rng.choice(['', '\n', ' \t', '\r\n'])
        ins.append(t)
    base = 'ACDEFGHIKL'
    for cp in cps:
        ch = chr(cp)
        for pos in (0, 4, len(base)):
            ins.append(base[:pos] + ch + base[pos:])
        ins.append(ch)
    ins += ['', ' ', '\n', ' \t\n ', 'A', 'a', ' a ', 'ACDX', 'AC-DE', 'AC1DE', 'ACDE*', 'B', 'J', 'O', 'U', 'X', 'Z', '>ACDE', 'ac de\nfg']
    run_checks(r, 'string', chk_string, ins)
    return r


def work_non(seed):
    r = Result(PROP)
    run_checks(r, 'nonstring', chk_nonstring, ['none', 'bytes', 'int', 'list', 'strsub', 'float', 'tuple', 'dict'])
    return r


def tasks(tier, seed):
    top = 0x250
    cps = list(range(0, top)) + [0x2000, 0x2003, 0x2028, 0x2029, 0x3000, 0xfeff, 0x130, 0x131, 0x17f, 0x212a, 0xdf, 0x1f600, 0xff21, 0xff41]
    if tier == 'thorough':
        cps += list(range(0x250, 0x3000, 7))
    k = 16
    t = [('native.c13', 'work', (seed * 47 + i, 12, cps[i::k])) for i in range(k)]
    t.append(('native.c13', 'work_non', (seed,)))
    return t, dict(code_points='every code point below 0x%x at 3 positions of a 10-mer and alone, plus samples of higher planes' % top,
                   random_valid_strings=12 * k, non_strings=8)
