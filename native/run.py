"""usage: /venv/bin/python -m native.run <ID> --tier quick|thorough --seed N --out file.json
       /venv/bin/python -m native.run --replay file.json
Runs the native (bounded) contract checks of one property against the code on PYTHONPATH."""
import argparse
import importlib
import json
import sys
import time


def main():
    ap = argparse.ArgumentParser()
    ap.add_argument('prop', nargs='?')
    ap.add_argument('--tier', default='quick')
    ap.add_argument('--seed', type=int, default=0)
    ap.add_argument('--out')
    ap.add_argument('--replay')
    a = ap.parse_args()
    if a.replay:
        rp = json.load(open(a.replay))
        mod = importlib.import_module('native.' + rp['property'].lower())
        bad = 0
        for f in rp.get('failures', []):
            fn = mod.CHECKS.get(f['check'])
            if fn is None:
                print('replay: no native check named %s (obligation-only violation): %s' % (f['check'], f.get('message', '')))
                continue
            msg = fn(f['input'])
            print('replay %s input=%s -> %s' % (f['check'], json.dumps(f['input'])[:200], msg or 'no violation'))
            bad += msg is not None
        sys.exit(1 if bad else 0)
    import localcider
    mod = importlib.import_module('native.' + a.prop.lower())
    from native.common import parallel
    t0 = time.time()
    tasks, bounds = mod.tasks(a.tier, a.seed)
    res = parallel(a.prop, tasks)
    res.bounds = bounds
    d = res.to_json()
    d['wall_s'] = time.time() - t0
    d['code_under_test'] = localcider.__file__
    json.dump(d, open(a.out, 'w') if a.out else sys.stdout, indent=1, default=str)


if __name__ == '__main__':
    main()
