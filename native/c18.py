"""C18 native: monitored Wang-Landau runs.  The harness injects seeded recording RNGs (module attribute `rng` of
wang_landau and sequence is replaced; no repository edit), records every proposal of the four moves, and re-executes the
bookkeeping INDEPENDENTLY from the recorded draws with the update rule of the statement; the code's trajectory, logs and
returned array must agree with that re-execution."""
import math
import os
import random
import shutil
import tempfile
from collections import Counter
from .common import *
from .refs import *
from .tape import SeededRandom, FakeRng, TapeCap

PROP = 'C18'


class Recorder(SeededRandom):
    """the sampler's own stream: every random() value is recorded"""

    def __init__(self, seed, cap):
        super().__init__(seed, cap)
        self.values = []

    def random(self):
        v = super().random()
        self.values.append(v)
        return v


def true_kappa(seq):
    return quiet(sp(seq).get_kappa)


def run_monitored(seq, nbins, binmin, binmax, flatchk, flatcrit, conv, seed, cap):
    import localcider.backend.wang_landau as W
    import localcider.backend.sequence as S
    tmp = tempfile.mkdtemp(prefix='c18_')
    old_w, old_s = W.rng, S.rng
    rec = Recorder(seed, cap)
    moves = SeededRandom(seed + 1, cap * 50)
    proposals = []
    patched = {}

    def wrap(name):
        orig = getattr(S.Sequence, name)

        def w(self, *a, **k):
            child = orig(self, *a, **k)
            proposals.append((name, self.seq, child.seq))
            return child
        patched[name] = orig
        setattr(S.Sequence, name, w)
    try:
        W.rng = FakeRng(lambda: rec)
        S.rng = FakeRng(lambda: moves)
        for nm in ('full_shuffle', 'swapRandChargeRes', 'permute_block_swap', 'permute_cluster_charges'):
            wrap(nm)
        try:
            m = quiet(W.WangLandauMachine, seq, tmp, set(), nbins, binmin, binmax, flatchk, flatcrit, conv, 'NORMAL')
            start_perm = quiet(S.Sequence(seq).deltaMax, True)[1]
            out = quiet(m.run)
        except TapeCap:
            return None
        files = {}
        for fn in ('hlog.txt', 'glog.txt', 'seqlog.txt', 'histogram_bins.txt', 'DOS.txt', 'DOS_local.txt'):
            p = os.path.join(tmp, fn)
            files[fn] = open(p).read() if os.path.exists(p) else None
        return dict(out=out, draws=list(rec.values), proposals=proposals, files=files, start=start_perm,
                    machine=dict(nbins_actual=m.nbins_actual, relevant_min=int(m.relevant_min), relevant_max=int(m.relevant_max)))
    finally:
        for nm, orig in patched.items():
            setattr(S.Sequence, nm, orig)
        W.rng, S.rng = old_w, old_s
        shutil.rmtree(tmp, ignore_errors=True)


def chk_run(inp):
    seq, nbins, binmin, binmax, flatchk, flatcrit, conv, seed, cap = inp
    r = run_monitored(seq, nbins, binmin, binmax, flatchk, flatcrit, conv, seed, cap)
    if r is None:
        return None         # step cap reached: inconclusive, not a violation
    # ---- independent bookkeeping
    width = (binmax - binmin) / float(nbins)
    nb = int(round(1.0 / width))
    centres = [(i + 0.5) / nb for i in range(nb)]
    lo = min(range(nb), key=lambda i: abs(centres[i] - (binmin + width / 2)))
    hi = lo + nbins - 1
    out = r['out']
    if out.shape != (2, nb):
        return 'returned array has shape %s, expected (2,%d)' % (out.shape, nb)
    for i in range(nb):
        if not close(out[0][i], centres[i], 1e-12, 1e-12):
            return 'bin centre %d is %r, midpoint of the equal partition of [0,1] into %d bins is %r' % (i, float(out[0][i]), nb, centres[i])

    def bin_of(k):
        return min(range(nb), key=lambda i: (abs(centres[i] - k), i))
    g = [0.0] * nb
    H = [0] * nb
    f = math.e
    oseq = r['start']
    if Counter(oseq) != Counter(seq):
        return 'the starting sequence %s is not a rearrangement of %s' % (oseq, seq)
    kold = true_kappa(oseq)
    idx_old = bin_of(kold)
    draws = r['draws']
    props = r['proposals']
    nstep = 0
    niter = 0
    flat = 0
    di = 0
    hlog_exp, glog_exp = [], []
    seqlog_pairs = []
    seqcount = 0
    step = 0
    while f > conv:
        if di + 1 >= len(draws) + 1 and step >= len(props):
            return 'the code stopped after %d steps while f=%r is still above the convergence threshold %r' % (step, f, conv)
        if step >= len(props):
            return 'the code made %d proposals, the rule needs more (f=%r > %r)' % (len(props), f, conv)
        mv, parent, child = props[step]
        if parent != oseq:
            return 'step %d: the code proposes from %s but the update rule leaves the walker at %s' % (step, parent, oseq)
        if Counter(child) != Counter(seq):
            return 'step %d: proposal %s is not a rearrangement of the input %s' % (step, child, seq)
        u = draws[di + 1]
        di += 2
        knew = true_kappa(child)
        idx_new = bin_of(knew)
        inside = lo <= idx_new <= hi
        acc = min(1.0, math.exp(g[idx_old] - g[idx_new])) if inside else 0.0
        if u < acc:
            if seqcount == 0:
                seqlog_pairs.append((oseq, kold))
                seqcount = len(seq) ** 2
            else:
                seqcount -= 1
            oseq, kold, idx_old = child, knew, idx_new
        if inside:
            g[idx_old] += math.log(f)
            H[idx_old] += 1
        nstep += 1
        step += 1
        if nstep % flatchk == 0:
            Hl = H[lo:hi + 1]
            flat += 1
            hlog_exp.append((flat, list(Hl)))
            mean = sum(Hl) / float(len(Hl))
            isflat = mean > 0 and all(h / mean >= flatcrit for h in Hl)
            if isflat:
                f = f ** 0.5
                H = [0] * nb
                niter += 1
                glog_exp.append((niter, list(g)))
            nstep = 0
    if step != len(props):
        return 'the code made %d proposals but the rule converges (f <= %r) after %d' % (len(props), conv, step)
    for i in range(nb):
        if not close(out[1][i], g[i], 1e-9, 1e-9):
            return 'returned g[%d]=%r, the update rule gives %r (all: %s vs %s)' % (i, float(out[1][i]), g[i], [float(x) for x in out[1]], g)
    # ---- logs
    fl = r['files']
    hl = [l for l in fl['hlog.txt'].split('\n') if l and l[0].isdigit()]
    if len(hl) != len(hlog_exp):
        return 'hlog has %d flat-check lines, expected %d' % (len(hl), len(hlog_exp))
    for l, (k, Hl) in zip(hl, hlog_exp):
        parts = l.split('\t')
        if int(parts[0]) != k or [int(x) for x in parts[1:] if x != ''] != Hl:
            return 'hlog line %r, the rule gives check %d histogram %s' % (l, k, Hl)
    gl = [l for l in fl['glog.txt'].split('\n')[1:] if l.strip()]
    if len(gl) != len(glog_exp):
        return 'glog has %d iterations, expected %d' % (len(gl), len(glog_exp))
    prev = [0.0] * nb
    for l, (k, gg) in zip(gl, glog_exp):
        parts = l.split('\t')
        vals = [float(x) for x in parts[1:] if x != '']
        if int(parts[0]) != k or any(abs(a - b) > 6e-5 for a, b in zip(vals, gg)):
            return 'glog line %r, the rule gives iteration %d g=%s' % (l, k, [round(x, 4) for x in gg])
        prev = gg
    for l in [x for x in fl['seqlog.txt'].split('\n')[1:] if x.strip()]:
        ks, ss = l.split('\t')
        if Counter(ss) != Counter(seq):
            return 'seqlog sequence %s is not a rearrangement of the input' % ss
        if abs(float(ks) - true_kappa(ss)) > 6e-4:
            return 'seqlog line %r: the true kappa of that sequence is %r' % (l, true_kappa(ss))
    dos = [x.split('\t') for x in fl['DOS.txt'].split('\n')[1:] if x.strip()]
    if len(dos) != nb or any(abs(float(a) - centres[i]) > 6e-4 or abs(float(b) - g[i]) > 6e-6 for i, (a, b) in enumerate(dos)):
        return 'DOS.txt %s disagrees with centres/g %s %s' % (dos, centres, g)
    dl = [x.split('\t') for x in fl['DOS_local.txt'].split('\n')[1:] if x.strip()]
    if len(dl) != nbins or any(abs(float(a) - centres[lo + i]) > 6e-4 or abs(float(b) - g[lo + i]) > 6e-6 for i, (a, b) in enumerate(dl)):
        return 'DOS_local.txt %s disagrees with the requested range %d..%d of %s' % (dl, lo, hi, g)
    return None


CHECKS = {'run': chk_run}

CONFIGS = [
    # (sequence, nbins, binmin, binmax): every requested bin is reachable for that composition
    ('KEKEKEKEGG', 4, 0.0, 1.0),
    ('KEKEKEKEGG', 2, 0.0, 0.5),
    ('KEKEKEKEGG', 2, 0.5, 1.0),
    ('KEKEKEKEGG', 3, 0.1, 0.4),
    ('EKEKEKGGEK', 3, 0.2, 0.8),
    ('KEKEKEGG', 2, 0.0, 1.0),
    ('KKEEKEKEGGG', 5, 0.0, 1.0),
    ('KEKEKEKEGG', 2, 0.6, 0.8),
]


def work(seed, cfgs, runs):
    rng = random.Random(seed)
    r = Result(PROP)
    inps = []
    for (s, nb, a, b) in cfgs:
        for _ in range(runs):
            inps.append((s, nb, a, b, rng.choice([20, 50, 100, 200]), rng.choice([0.3, 0.5, 0.6, 0.8]),
                         math.exp(rng.choice([0.2, 0.1, 0.05])), rng.randint(0, 10 ** 6), 60000))
    run_checks(r, 'run', chk_run, inps)
    return r


def tasks(tier, seed):
    runs = 2 if tier == 'quick' else 12
    t = [('native.c18', 'work', (seed * 79 + i, [c], runs)) for i, c in enumerate(CONFIGS)]
    return t, dict(configurations=len(CONFIGS), runs_per_configuration=runs, step_cap='60000 sampler draws (capped run = inconclusive)',
                   parameters='flat-check period 20..200, criterion 0.3..0.8, convergence e^0.2..e^0.05, seeded tapes')
