"""Helpers of the native (bounded) contract checks: they run the REAL code under /venv/bin/python
(PYTHONPATH=$REPO puts the working tree first) and evaluate the same contract clauses with the
executable spec functions (exact Fractions).  Never counted as proved."""
import io
import itertools
import json
import math
import os
import random
import sys
import time
import traceback
import warnings
from fractions import Fraction

warnings.filterwarnings('ignore')
os.environ.setdefault('MPLBACKEND', 'Agg')

AA20 = 'ACDEFGHIKLMNPQRSTVWY'
POS, NEG = 'KR', 'DE'
NEUT = ''.join(c for c in AA20 if c not in 'KRDE')


def sp(seq):
    from localcider.sequenceParameters import SequenceParameters
    return SequenceParameters(seq)


def backend_seq(seq):
    from localcider.backend.sequence import Sequence
    return Sequence(seq)


def quiet(f, *a, **k):
    """call f with stdout silenced"""
    old = sys.stdout
    sys.stdout = io.StringIO()
    try:
        return f(*a, **k)
    finally:
        sys.stdout = old


def outcome(f, *a, **k):
    """('ok', value) or ('exc', ExceptionClassName)"""
    try:
        return ('ok', quiet(f, *a, **k))
    except Exception as e:      # noqa
        return ('exc', type(e).__name__)


def close(a, b, rel=1e-9, ab=1e-12):
    a = float(a)
    b = float(b)
    return abs(a - b) <= max(ab, rel * max(abs(a), abs(b)))


# ----------------------------------------------------------------------------- generators
def patterns(n):
    """all charge patterns over {+,-,0} of length n"""
    return itertools.product('+-0', repeat=n)


def canonical_patterns(n):
    """patterns modulo reversal and charge inversion"""
    inv = {'+': '-', '-': '+', '0': '0'}
    for p in itertools.product('+-0', repeat=n):
        s = ''.join(p)
        alts = (s, s[::-1], ''.join(inv[c] for c in s), ''.join(inv[c] for c in s)[::-1])
        if s == min(alts):
            yield s


def spell(pattern, rng):
    """a sequence with the given charge pattern, residues drawn at random inside each class"""
    return ''.join(rng.choice(POS) if c == '+' else (rng.choice(NEG) if c == '-' else rng.choice(NEUT)) for c in pattern)


def spell_fixed(pattern):
    return ''.join('K' if c == '+' else ('E' if c == '-' else 'G') for c in pattern)


def random_sequence(rng, n=None, kind=None):
    kinds = ('uniform', 'idp', 'polyampholyte', 'polyelectrolyte', 'lowcomplexity', 'short', 'neutral')
    kind = kind or rng.choice(kinds)
    if n is None:
        n = rng.choice([1, 2, 3, 4, 5, 6, 7, 8, 10, 12, 17, 18, 19, 25, 40, 60, 100, 150, 300]) if kind != 'short' else rng.randint(1, 9)
    if kind == 'uniform' or kind == 'short':
        return ''.join(rng.choice(AA20) for _ in range(n))
    if kind == 'idp':
        w = 'GSPEKQADTRN'
        return ''.join(rng.choice(w + w + AA20) for _ in range(n))
    if kind == 'polyampholyte':
        f = rng.random() * 0.8 + 0.2
        return ''.join((rng.choice('KRDE') if rng.random() < f else rng.choice(NEUT)) for _ in range(n))
    if kind == 'polyelectrolyte':
        ch = rng.choice([POS, NEG])
        f = rng.random() * 0.9 + 0.1
        return ''.join((rng.choice(ch) if rng.random() < f else rng.choice(NEUT)) for _ in range(n))
    if kind == 'lowcomplexity':
        k = rng.randint(1, 3)
        letters = [rng.choice(AA20) for _ in range(k)]
        return ''.join(rng.choice(letters) for _ in range(n))
    if kind == 'neutral':
        return ''.join(rng.choice(NEUT) for _ in range(n))
    raise ValueError(kind)


def compositions(N):
    """all (n+, n-, n0) with sum N"""
    for p in range(N + 1):
        for n in range(N + 1 - p):
            yield p, n, N - p - n


def seq_of_composition(p, n, z, rng=None, fixed=False):
    s = ['+'] * p + ['-'] * n + ['0'] * z
    if rng is not None:
        rng.shuffle(s)
    pat = ''.join(s)
    return spell_fixed(pat) if fixed or rng is None else spell(pat, rng)


# ----------------------------------------------------------------------------- result collection
class Result:
    def __init__(self, prop):
        self.prop = prop
        self.evaluations = 0
        self.distinct = set()
        self.samples = []
        self.failures = []
        self.notes = []
        self.bounds = {}

    def ok(self, key, sample=None):
        self.evaluations += 1
        self.distinct.add(key)
        if sample is not None and len(self.samples) < 6:
            self.samples.append(sample)

    def fail(self, check, inp, msg):
        self.evaluations += 1
        if len(self.failures) < 50:
            self.failures.append(dict(check=check, input=inp, message=str(msg)[:600]))

    def merge(self, other):
        self.evaluations += other.evaluations
        self.distinct |= other.distinct
        for s in other.samples:
            if len(self.samples) < 6:
                self.samples.append(s)
        for f in other.failures:
            if len(self.failures) < 50:
                self.failures.append(f)
        self.notes.extend(other.notes)
        self.bounds.update(other.bounds)

    def to_json(self):
        return dict(property=self.prop, evaluations=self.evaluations, distinct=len(self.distinct),
                    samples=self.samples, failures=self.failures, notes=self.notes, bounds=self.bounds)


def run_checks(res, check, fn, inputs, keyf=None):
    """apply fn(input) -> None | failure message to every input"""
    for inp in inputs:
        try:
            msg = fn(inp)
        except Exception as e:  # noqa
            msg = 'check raised %s: %s' % (type(e).__name__, traceback.format_exc(limit=3)[-300:])
        if msg is None:
            res.ok((check, keyf(inp) if keyf else json.dumps(inp, default=str)), dict(check=check, input=inp))
        else:
            res.fail(check, inp, msg)


def parallel(prop, tasks, procs=None):
    """tasks: list of (module_name, function_name, args) each returning a Result; run in a process pool"""
    import multiprocessing as mp
    procs = procs or min(16, os.cpu_count() or 4)
    total = Result(prop)
    if procs <= 1 or len(tasks) <= 1:
        for t in tasks:
            total.merge(_run_task(t))
        return total
    ctx = mp.get_context('fork')
    with ctx.Pool(min(procs, len(tasks))) as pool:
        for r in pool.imap_unordered(_run_task, tasks):
            total.merge(r)
    return total


def _run_task(t):
    import importlib
    mod, fn, args = t
    m = importlib.import_module(mod)
    try:
        return getattr(m, fn)(*args)
    except Exception as e:  # noqa
        r = Result('?')
        r.fail(fn, dict(args=str(args)[:200]), 'task crashed: ' + traceback.format_exc(limit=4)[-500:])
        return r


def disturb(o, seq, rng, k=5):
    """a series of OTHER public queries on the same object (phosphorylation, cached searches, profiles, complexity, rendering): the
    properties are stated for the object's sequence, so none of these calls may change what a later query returns"""
    sty = [i + 1 for i, c in enumerate(seq) if c in 'STY']
    if sty:
        quiet(o.set_phosphosites, rng.sample(sty, min(len(sty), rng.randint(1, 3))))
    pool = ['get_kappa_after_phosphorylation', 'get_phosphosequence', 'get_kappa', 'get_Omega', 'get_deltaMax', 'get_SCD', 'get_isoelectric_point',
            'get_full_phosphostatus_kappa_distribution', 'get_delta', 'get_FCR', 'get_NCPR', 'get_phasePlotRegion', 'get_HTMLColorString',
            'get_mean_hydropathy', 'get_molecular_weight', 'get_all_phosphorylatable_sites', 'get_Omega_sequence']
    w = max(1, min(len(seq), rng.choice([1, 2, 5, 6])))
    for m in rng.sample(pool, min(k, len(pool))):
        quiet(getattr(o, m))
    for m in rng.sample(['get_linear_FCR', 'get_linear_NCPR', 'get_linear_sigma', 'get_linear_hydropathy', 'get_linear_sequence_composition'], 2):
        quiet(getattr(o, m), w)
    quiet(o.get_deltaMax, True)
    if rng.random() < 0.5:
        quiet(o.clear_phosphosites)
