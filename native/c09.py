"""C09 native: pH-dependent charge (Henderson-Hasselbalch at the EMBOSS pKa values) and the isoelectric point."""
import random
from .common import *
from .refs import *

PROP = 'C09'


def chk_ph(inp):
    seq, pH = inp
    o = sp(seq)
    N = len(seq)
    ncpr = quiet(o.get_NCPR, pH)
    fcr = quiet(o.get_FCR, pH)
    e_n = hh_charge(seq, pH) / N
    e_f = hh_charge(seq, pH, total=True) / N
    if not close(ncpr, e_n, 1e-9, 1e-12):
        return 'get_NCPR(pH=%r) on %s = %r, Henderson-Hasselbalch sum gives %r' % (pH, seq, ncpr, e_n)
    if not close(fcr, e_f, 1e-9, 1e-12):
        return 'get_FCR(pH=%r) on %s = %r, Henderson-Hasselbalch sum gives %r' % (pH, seq, fcr, e_f)
    if not close(quiet(o.get_mean_net_charge, pH), abs(e_n), 1e-9, 1e-12):
        return 'get_mean_net_charge(pH=%r) on %s != |NCPR|' % (pH, seq)
    fe = quiet(o.get_fraction_expanding, pH)
    if not close(fe, e_f + seq.count('P') / N, 1e-9, 1e-12):
        return 'get_fraction_expanding(pH=%r) on %s = %r, expected FCR(pH)+fP = %r' % (pH, seq, fe, e_f + seq.count('P') / N)
    if not (abs(ncpr) <= fcr + 1e-12 and fcr <= titratable(seq) / N + 1e-12):
        return '|NCPR(pH)| <= FCR(pH) <= titratable/N violated on %s at pH %r: %r %r' % (seq, pH, ncpr, fcr)
    return None


def chk_mono(seq):
    o = sp(seq)
    prev = None
    for i in range(0, 141, 5):
        pH = i / 10.0
        v = quiet(o.get_NCPR, pH)
        if prev is not None and v > prev + 1e-12:
            return 'NCPR(pH) increases from %r to %r at pH %r on %s' % (prev, v, pH, seq)
        prev = v
    return None


def chk_range(inp):
    seq, pH = inp
    o = sp(seq)
    for m in ('get_FCR', 'get_NCPR', 'get_mean_net_charge', 'get_fraction_expanding'):
        r = outcome(getattr(o, m), pH)
        if r[0] != 'exc':
            return '%s accepted pH=%r (returned %r)' % (m, pH, r[1])
    for m in ('get_FCR', 'get_NCPR', 'get_mean_net_charge', 'get_fraction_expanding'):
        for ok in (0, 0.0, 14, 14.0):
            r = outcome(getattr(o, m), ok)
            if r[0] != 'ok':
                return '%s rejected the legal pH %r with %s' % (m, ok, r[1])
    return None


def chk_pi(seq):
    o = sp(seq)
    r = outcome(o.get_isoelectric_point)
    if r[0] != 'ok':
        return 'get_isoelectric_point(%s) raised %s' % (seq, r[1])
    pI = r[1]
    t = titratable(seq)
    if t == 0:
        if pI != 7.0:
            return 'nothing titrates in %s but pI = %r' % (seq, pI)
        return None
    res = hh_charge(seq, pI) / t
    if abs(res) > 0.02 + 1e-9:
        return 'pI(%s)=%r leaves a mean charge per titratable residue of %r' % (seq, pI, res)
    return None


CHECKS = {'ph': chk_ph, 'mono': chk_mono, 'range': chk_range, 'pi': chk_pi}


def count_vectors(total):
    out = []

    def rec(i, left, cur):
        if i == 7:
            out.append(tuple(cur))
            return
        for k in range(left + 1):
            rec(i + 1, left - k, cur + [k])
    rec(0, total, [])
    return out


def work_pi(vectors, seed):
    rng = random.Random(seed)
    r = Result(PROP)
    seqs = []
    for v in vectors:
        s = ''.join(c * k for c, k in zip('KRHDECY', v)) + 'G' * rng.randint(0, 3)
        l = list(s)
        rng.shuffle(l)
        seqs.append(''.join(l) or 'G')
    run_checks(r, 'pi', chk_pi, seqs)
    return r


def work_ph(seed, count):
    rng = random.Random(seed)
    r = Result(PROP)
    seqs = [random_sequence(rng)[:200] for _ in range(count)] + ['K', 'R', 'H', 'D', 'E', 'C', 'Y', 'G', 'RRRR', 'EEEEE', 'HHHH',
                                                               'GGHGG', 'ACAC', 'YYY', 'KKKKKKKKKKKKKKKKKKKKD', 'D' * 40 + 'K',
                                                               'R' * 300 + 'D', 'E' * 300 + 'R']
    phs = [0, 0.0, 0.05, 1, 3.9, 4.1, 6.5, 7, 7.4, 8.5, 10, 10.1, 12.5, 13.99, 14, 14.0]
    run_checks(r, 'ph', chk_ph, [(s, rng.choice(phs)) for s in seqs] + [(s, round(rng.uniform(0, 14), 3)) for s in seqs]
               + [(s, 0.0) for s in seqs[:10]] + [(s, 0) for s in seqs[:10]])
    run_checks(r, 'mono', chk_mono, seqs)
    run_checks(r, 'range', chk_range, [(seqs[i % len(seqs)], b) for i, b in enumerate([-0.001, -1, -7.4, 14.001, 15, 100.0])])
    run_checks(r, 'pi', chk_pi, seqs)
    return r


def tasks(tier, seed):
    tot = 5 if tier == 'quick' else 8
    vecs = []
    for t in range(0, tot + 1):
        vecs += count_vectors(t)
    # extreme ratios
    for a in range(7):
        for b in range(7):
            if a != b:
                v = [0] * 7
                v[a] = 600
                v[b] = 1
                vecs.append(tuple(v))
    k = 16
    t = [('native.c09', 'work_pi', (vecs[i::k], seed + i)) for i in range(k)]
    kk = 6 if tier == 'quick' else 40
    t += [('native.c09', 'work_ph', (seed * 29 + i, 20)) for i in range(kk)]
    return t, dict(titratable_count_vectors_with_total_up_to=tot, extreme_ratio_vectors=42, random_sequences=kk * 20,
                   pH_grid='0..14 step 0.5 for monotonicity; boundary and random pH values for the sums')
