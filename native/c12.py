"""C12 native: reduced alphabets against the documented partitions."""
import random
from .common import *
from .refs import *

PROP = 'C12'
SIZES = [2, 3, 4, 5, 6, 8, 10, 11, 12, 15, 18, 20]


def red(o, size=20, ua=None):
    if ua is None:
        return quiet(o.get_reduced_alphabet_sequence, size)
    return quiet(o.get_reduced_alphabet_sequence, size, ua)


def chk_partition(size):
    from localcider.backend.sequenceComplexity import SequenceComplexity
    sc = SequenceComplexity()
    img = {}
    for a in AA20:
        s, alpha = quiet(sc.reduce_alphabet, a, size)
        if len(s) != 1:
            return 'size %d: residue %s reduces to %r' % (size, a, s)
        img[a] = s
    groups = {}
    for a, r in img.items():
        groups.setdefault(r, set()).add(a)
    doc = set(frozenset(g) for g in ALPHABETS[size])
    if set(frozenset(g) for g in groups.values()) != doc:
        return 'size %d: partition %s differs from the documented %s' % (size, sorted(''.join(sorted(g)) for g in groups.values()), sorted(ALPHABETS[size]))
    for r, g in groups.items():
        if r not in g:
            return 'size %d: group %s is represented by %s, not one of its members' % (size, ''.join(sorted(g)), r)
    s, alpha = quiet(sc.reduce_alphabet, AA20, size)
    if sorted(alpha) != sorted(groups.keys()) or len(set(alpha)) != len(alpha):
        return 'size %d: returned alphabet %s, representatives are %s' % (size, alpha, sorted(groups.keys()))
    if len(groups) != size:
        return 'size %d has %d groups' % (size, len(groups))
    return None


def chk_laws(inp):
    a, b, size = inp
    o = sp(a + b)
    r = red(o, size)
    if isinstance(r, tuple):
        r = r[0]
    ra, rb = red(sp(a), size), red(sp(b), size)
    ra = ra[0] if isinstance(ra, tuple) else ra
    rb = rb[0] if isinstance(rb, tuple) else rb
    if len(r) != len(a + b):
        return 'size %d: reduced sequence has length %d, input %d' % (size, len(r), len(a + b))
    if r != ra + rb:
        return 'size %d: reduce(%s+%s)=%s but %s+%s' % (size, a, b, r, ra, rb)
    rr = red(sp(r), size)
    rr = rr[0] if isinstance(rr, tuple) else rr
    if rr != r:
        return 'size %d: reducing twice changes %s to %s' % (size, r, rr)
    m = {}
    for g in ALPHABETS[size]:
        for c in g:
            m[c] = g
    for x, y in zip(a + b, r):
        if y not in m[x]:
            return 'size %d: residue %s mapped to %s outside its group %s' % (size, x, y, m[x])
    return None


def chk_sizes(seq):
    o = sp(seq)
    for size in list(range(0, 26)) + [-1, 100, '5', '7', 'x', 2.0, 7.5]:
        r = outcome(o.get_reduced_alphabet_sequence, size)
        try:
            ok = int(size) in SIZES
        except ValueError:
            ok = False
        if ok and r[0] != 'ok':
            return 'alphabet size %r rejected with %s' % (size, r[1])
        if not ok and r[0] != 'exc':
            return 'alphabet size %r accepted' % (size,)
    return None


def chk_user(inp):
    seq, seed = inp
    rng = random.Random(seed)
    from localcider.backend.sequenceComplexity import SequenceComplexity
    import localcider.backend.data.aminoacids as AAmod
    twenty0 = list(AAmod.TWENTY_AAs)
    ua = {a: rng.choice(AA20) for a in AA20}
    if rng.random() < 0.5:      # collapse onto few representatives
        reps = rng.sample(AA20, rng.randint(1, 3))
        ua = {a: rng.choice(reps) for a in AA20}
    sc = SequenceComplexity()
    r = outcome(sc.reduce_alphabet, seq, 20, dict(ua))
    if r[0] != 'ok':
        return 'total user alphabet rejected with %s' % r[1]
    s, alpha = r[1]
    if s != ''.join(ua[c] for c in seq):
        return 'user alphabet not applied residue by residue: %s -> %s' % (seq, s)
    exp_alpha = []
    for a in twenty0:
        if ua[a] not in exp_alpha:
            exp_alpha.append(ua[a])
    if sorted(alpha) != sorted(exp_alpha):
        return 'alphabet of user mapping is %s, images are %s' % (alpha, exp_alpha)
    # partial / invalid alphabets
    bad = dict(ua)
    del bad[rng.choice(AA20)]
    if outcome(sc.reduce_alphabet, seq, 20, bad)[0] != 'exc':
        return 'user alphabet with a missing residue accepted'
    for val in ('B', 'x', 'a', '', 'ST', 'KDE', 'LL', 1, None, '*'):
        bad = dict(ua)
        k = rng.choice(AA20)
        bad[k] = val
        if outcome(sc.reduce_alphabet, seq, 20, bad)[0] != 'exc':
            return 'user alphabet mapping %s to %r accepted' % (k, val)
    if outcome(sc.reduce_alphabet, seq, 20, [('A', 'A')])[0] != 'exc':
        return 'non-dictionary user alphabet accepted'
    # later calls must be unaffected by the user-alphabet call (no shared state)
    if list(AAmod.TWENTY_AAs) != twenty0:
        return 'the library-wide TWENTY_AAs list was modified by a reduce_alphabet call: %s' % (AAmod.TWENTY_AAs,)
    for size in (20, 2):
        m = chk_partition(size)
        if m:
            return 'after a user-alphabet call: ' + m
    return None


def chk_user_history(inp):
    """several reductions on ONE object (different user alphabets with the same keys, predefined sizes, an invalid alphabet): each
    answer is that of the alphabet given in that call"""
    seq, seed = inp
    rng = random.Random(seed)
    o = sp(seq)
    for step in range(5):
        x = rng.random()
        if x < 0.55:
            reps = rng.sample(AA20, rng.randint(1, 4))
            ua = {a: rng.choice(reps) for a in AA20}
            r = outcome(o.get_reduced_alphabet_sequence, 20, dict(ua))
            exp = ''.join(ua[c] for c in seq)
            if r[0] != 'ok' or r[1][0] != exp:
                return 'call %d on one object: user alphabet %s on %s -> %r, expected %s' % (step + 1, ua, seq, r, exp)
        elif x < 0.8:
            size = rng.choice([2, 5, 8, 11, 20])
            r = outcome(o.get_reduced_alphabet_sequence, size)
            f = outcome(sp(seq).get_reduced_alphabet_sequence, size)
            if r != f:
                return 'call %d on one object: size %d on %s -> %r, a fresh object gives %r' % (step + 1, size, seq, r, f)
        else:
            bad = {a: rng.choice(AA20) for a in AA20}
            bad[rng.choice(AA20)] = rng.choice(['x', 'B', '', 'ST'])
            r = outcome(o.get_reduced_alphabet_sequence, 20, bad)
            if r[0] != 'exc':
                return 'call %d on one object: invalid user alphabet %s accepted -> %r' % (step + 1, bad, r)
    return None


CHECKS = {'partition': chk_partition, 'laws': chk_laws, 'sizes': chk_sizes, 'user': chk_user, 'user_history': chk_user_history}


def work(seed, count, first):
    rng = random.Random(seed)
    r = Result(PROP)
    if first:
        run_checks(r, 'partition', chk_partition, SIZES)
        run_checks(r, 'sizes', chk_sizes, ['ACDEFGHIKLMNPQRSTVWY', 'K'])
    inps = []
    for _ in range(count):
        a, b = random_sequence(rng)[:40], random_sequence(rng)[:40]
        inps.append((a, b, rng.choice(SIZES)))
    run_checks(r, 'laws', chk_laws, inps)
    run_checks(r, 'user', chk_user, [(random_sequence(rng)[:30], rng.randint(0, 10 ** 6)) for _ in range(count // 2)])
    run_checks(r, 'user_history', chk_user_history, [(random_sequence(rng)[:30], rng.randint(0, 10 ** 6)) for _ in range(count // 2)])
    if first:
        run_checks(r, 'partition', chk_partition, SIZES)
    return r


def tasks(tier, seed):
    k = 8 if tier == 'quick' else 40
    return [('native.c12', 'work', (seed * 43 + i, 30, i == 0)) for i in range(k)], dict(
        sizes_x_residues='12 x 20 exhaustive', integer_sizes='0..25 and non-integers', random_sequence_pairs=30 * k, random_user_alphabets=15 * k)
