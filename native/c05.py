"""C05 native: class substitution, reversal and inversion invariance of kappa, delta, deltaMax, SCD, Omega."""
import random
from .common import *
from .refs import *

PROP = 'C05'
INV = {'K': 'E', 'R': 'D', 'E': 'K', 'D': 'R'}
OMEGA_IN = 'PEDKR'
OMEGA_OUT = ''.join(c for c in AA20 if c not in OMEGA_IN)


def five(seq):
    o = sp(seq)
    return dict(kappa=quiet(o.get_kappa), delta=quiet(o.get_delta), deltaMax=quiet(o.get_deltaMax), SCD=quiet(o.get_SCD),
                Omega=quiet(o.get_Omega))


def same(a, b, keys, what, s1, s2):
    for k in keys:
        if not close(a[k], b[k], 1e-9, 1e-10):
            return '%s differs under %s: %s -> %r, %s -> %r' % (k, what, s1, a[k], s2, b[k])
    return None


def chk_rel(inp):
    seq, seed = inp
    rng = random.Random(seed)
    base = five(seq)
    # class-preserving substitution
    sub = ''.join(rng.choice(POS) if c in POS else (rng.choice(NEG) if c in NEG else rng.choice(NEUT)) for c in seq)
    m = same(base, five(sub), ('kappa', 'delta', 'deltaMax', 'SCD'), 'class-preserving substitution', seq, sub)
    if m:
        return m
    osub = ''.join(rng.choice(OMEGA_IN) if c in OMEGA_IN else rng.choice(OMEGA_OUT) for c in seq)
    m = same(base, five(osub), ('Omega',), 'substitution within {PEDKR} / the other fifteen', seq, osub)
    if m:
        return m
    rev = seq[::-1]
    m = same(base, five(rev), ('kappa', 'delta', 'deltaMax', 'SCD', 'Omega'), 'reversal', seq, rev)
    if m:
        return m
    inv = ''.join(INV.get(c, c) for c in seq)
    m = same(base, five(inv), ('kappa', 'delta', 'deltaMax', 'SCD'), 'charge inversion', seq, inv)
    if m:
        return m
    # Omega under exchanging the two Omega classes is not claimed; under +/- exchange P,E,D,K,R stay inside their class
    m = same(base, five(inv), ('Omega',), 'charge inversion', seq, inv)
    return m


CHECKS = {'rel': chk_rel}


def work_patterns(n, seed):
    rng = random.Random(seed + n)
    r = Result(PROP)
    run_checks(r, 'rel', chk_rel, [(spell(p, rng), rng.randint(0, 10 ** 6)) for p in patterns(n)])
    return r


def work_random(seed, count):
    rng = random.Random(seed)
    r = Result(PROP)
    inps = []
    for _ in range(count):
        s = random_sequence(rng)[:200]
        inps.append((s, rng.randint(0, 10 ** 6)))
    # skewed compositions with many neutrals (third search family)
    for _ in range(count // 4):
        p, n, z = rng.randint(1, 14), rng.randint(1, 3), rng.randint(18, 40)
        inps.append((seq_of_composition(p, n, z, rng), rng.randint(0, 10 ** 6)))
        inps.append((seq_of_composition(n, p, z, rng), rng.randint(0, 10 ** 6)))
    run_checks(r, 'rel', chk_rel, inps)
    return r


def tasks(tier, seed):
    nmax = 6 if tier == 'quick' else 8
    t = [('native.c05', 'work_patterns', (n, seed)) for n in range(1, nmax + 1)]
    k = 12 if tier == 'quick' else 64
    t += [('native.c05', 'work_random', (seed * 17 + i, 16)) for i in range(k)]
    return t, dict(exhaustive_pattern_length=nmax, random_sequences=k * 24, tolerance='1e-9 rel (float summation order differs under reversal)')
