"""C14 native: sequence files (plain text / single-record FASTA) parse to exactly their residues."""
import os
import random
import tempfile
from .common import *
from .refs import *

PROP = 'C14'


def layout(seq, rng, star=False):
    lines = []
    if rng.random() < 0.5:
        lines.append('>' + rng.choice(['sp|P12345|TEST_HUMAN test protein', 'seq 1', '', 'x>y']))
    w = rng.choice([1, 7, 10, 60, 80, 10 ** 6])
    numbering = rng.random() < 0.3
    spacing = rng.random() < 0.4
    body = seq + ('*' if star else '')
    pos = 0
    while pos < len(body):
        chunk = body[pos:pos + w]
        if spacing:
            chunk = ' '.join(chunk[i:i + 10] for i in range(0, len(chunk), 10))
        if numbering:
            chunk = '%5d %s %d' % (pos + 1, chunk, pos + len(body[pos:pos + w]))
        if rng.random() < 0.2:
            chunk = '  ' + chunk + ' \t'
        lines.append(chunk)
        if rng.random() < 0.15:
            lines.append(rng.choice(['', '   ', '\t']))
        pos += w
    text = '\n'.join(lines)
    if rng.random() < 0.7:
        text += '\n'
    if rng.random() < 0.2:
        text = '\n' + text
    return text


def parse(text):
    from localcider.backend.seqfileparser import SequenceFileParser
    fd, path = tempfile.mkstemp(prefix='c14_', suffix='.fasta')
    try:
        with os.fdopen(fd, 'w') as fh:
            fh.write(text)
        r = outcome(SequenceFileParser().parseSeqFile, path)
        r2 = outcome(lambda: sp_file(path))
        return r, r2
    finally:
        os.remove(path)


def sp_file(path):
    from localcider.sequenceParameters import SequenceParameters
    return SequenceParameters(sequenceFile=path)


def chk_file(inp):
    seq, seed, star = inp
    rng = random.Random(seed)
    text = layout(seq, rng, star)
    r, r2 = parse(text)
    if r != ('ok', seq):
        return 'file %r parsed to %r, expected %s' % (text[:200], r, seq)
    if r2[0] != 'ok':
        return 'SequenceParameters(sequenceFile=...) raised %s on %r' % (r2[1], text[:200])
    o, f = r2[1], sp(seq)
    for m in ('get_sequence', 'get_length', 'get_FCR', 'get_kappa', 'get_mean_hydropathy', 'get_SCD', 'get_countNeut', 'get_delta',
              'get_phasePlotRegion', 'get_HTMLColorString', 'get_Omega', 'get_molecular_weight'):
        a, b = outcome(getattr(o, m)), outcome(getattr(f, m))
        if a != b:
            return '%s: object from file gives %r, object from string gives %r (file %r)' % (m, a, b, text[:120])
    try:
        from localcider.sequencePermutants import SequencePermutants
        fd, path = tempfile.mkstemp(prefix='c14p_', suffix='.fasta')
        with os.fdopen(fd, 'w') as fh:
            fh.write(text)
        try:
            pr = outcome(lambda: SequencePermutants(sequenceFile=path).SeqObj.seq)
        finally:
            os.remove(path)
        if pr[0] == 'ok' and pr[1] != seq:
            return 'SequencePermutants(sequenceFile) holds %r, expected %s' % (pr[1], seq)
    except ImportError:
        pass
    return None


def chk_corrupt(inp):
    seq, seed, kind = inp
    rng = random.Random(seed)
    text = layout(seq, rng, False)
    lines = text.split('\n')
    seqlines = [i for i, l in enumerate(lines) if l.strip() and not l.strip().startswith('>')]
    if not seqlines:
        return None
    if kind == 'second_header':
        pos = rng.randint(0, len(lines))
        lines2 = lines[:pos] + ['>second record'] + lines[pos:]
        if not any(l.strip().startswith('>') for l in lines):
            lines2 = ['>first'] + lines2
        bad = '\n'.join(lines2)
    elif kind == 'two_headers_top':
        bad = '>first\n>second\n' + '\n'.join(l for l in lines if not l.strip().startswith('>'))
    elif kind == 'char':
        i = rng.choice(seqlines)
        l = lines[i]
        p = rng.randint(0, len(l))
        ch = rng.choice(list('BJOUXZbx-_.,;:!?#@+=/\\()[]{}|~^%$&"\'<') + ['\t' if 0 < p < len(l.rstrip()) and l[:p].strip() else '-'])
        if ch == '>' and not l[:p].strip():
            ch = '-'
        lines[i] = l[:p] + ch + l[p:]
        bad = '\n'.join(lines)
    elif kind == 'lower':
        i = rng.choice(seqlines)
        l = lines[i]
        idx = [k for k, c in enumerate(l) if c in AA20]
        p = rng.choice(idx)
        lines[i] = l[:p] + l[p].lower() + l[p + 1:]
        bad = '\n'.join(lines)
    elif kind == 'star_mid':
        i = rng.choice(seqlines)
        l = lines[i]
        idx = [k for k, c in enumerate(l) if c in AA20]
        if i == seqlines[-1]:
            idx = idx[:-1] if len(idx) > 1 else []
        if not idx:
            return None
        p = rng.choice(idx)
        lines[i] = l[:p + 1] + '*' + l[p + 1:]
        bad = '\n'.join(lines)
    elif kind == 'star_twice':
        bad = text.rstrip('\n') + rng.choice(['**', '*\n*', '* *', '*\n\n*\n'])
    else:
        return None
    r, r2 = parse(bad)
    if r[0] != 'exc':
        return 'corrupted file (%s) %r was accepted and parsed to %r' % (kind, bad[:200], r[1])
    if r2[0] != 'exc':
        return 'SequenceParameters accepted the corrupted file (%s) %r' % (kind, bad[:200])
    return None


CHECKS = {'file': chk_file, 'corrupt': chk_corrupt}


def work(seed, count):
    rng = random.Random(seed)
    r = Result(PROP)
    seqs = [random_sequence(rng)[:rng.choice([1, 5, 23, 61, 140])] for _ in range(count)]
    run_checks(r, 'file', chk_file, [(s, rng.randint(0, 10 ** 6), rng.random() < 0.3) for s in seqs for _ in range(3)])
    kinds = ['second_header', 'two_headers_top', 'char', 'lower', 'star_mid', 'star_twice']
    run_checks(r, 'corrupt', chk_corrupt, [(s, rng.randint(0, 10 ** 6), k) for s in seqs for k in kinds])
    return r


def tasks(tier, seed):
    k = 8 if tier == 'quick' else 48
    return [('native.c14', 'work', (seed * 53 + i, 10)) for i in range(k)], dict(
        random_sequences=10 * k, layouts_per_sequence=3, corruption_kinds=6)
