"""C20 native: HTML rendering and palette updates."""
import random
import re
from .common import *
from .refs import *

PROP = 'C20'
DEFAULT = {'A': 'black', 'C': 'black', 'D': 'red', 'E': 'red', 'F': 'orange', 'G': 'green', 'H': 'green', 'I': 'black', 'K': 'blue',
           'L': 'black', 'M': 'black', 'N': 'green', 'P': 'fuchsia', 'Q': 'green', 'R': 'blue', 'S': 'green', 'T': 'green', 'V': 'black',
           'W': 'orange', 'Y': 'orange'}
SPAN = re.compile(r'<span style="color:([a-z]*)">(.)</span>')


def render_ref(seq, pal):
    out = '<p style="font-family:Courier;">'
    for i, c in enumerate(seq):
        if i % 10 == 0:
            out += ' '
        if i % 50 == 0:
            out += '<br>'
        out += '<span style="color:%s">%s</span>' % (pal[c], c)
    return out + '</p>'


def check_render(o, seq, pal, ctx):
    h = quiet(o.get_HTMLColorString)
    spans = SPAN.findall(h)
    if ''.join(c for _, c in spans) != seq:
        return 'residues in the rendering are %r, sequence is %s (%s)' % (''.join(c for _, c in spans)[:60], seq[:60], ctx)
    for i, (col, c) in enumerate(spans):
        if col != pal[c]:
            return 'residue %d (%s) rendered %s, palette says %s (%s)' % (i + 1, c, col, pal[c], ctx)
    stripped = re.sub(r'<[^>]*>', '', h).replace(' ', '')
    if stripped != seq:
        return 'stripping the markup gives %r (%s)' % (stripped[:60], ctx)
    if h != render_ref(seq, pal):
        return 'rendering differs from the block layout (space every 10, <br> every 50): %r (%s)' % (h[:150], ctx)
    return None


def chk_series(inp):
    seq, seed = inp
    rng = random.Random(seed)
    o = sp(seq)
    pal = dict(DEFAULT)
    m = check_render(o, seq, pal, 'default palette')
    if m:
        return m
    for step in range(rng.randint(1, 5)):
        kind = rng.choice(['valid', 'valid', 'missing', 'badcolour', 'case', 'nondict', 'extra'])
        new = {a: rng.choice(HTML_COLOURS) for a in AA20}
        if kind == 'valid':
            r = outcome(o.set_HTMLColorResiduePalette, dict(new))
            if r[0] != 'ok':
                return 'valid palette rejected with %s' % r[1]
            pal = new
        elif kind == 'extra':
            new2 = dict(new)
            new2['X'] = 'notacolour'
            r = outcome(o.set_HTMLColorResiduePalette, new2)
            if r[0] != 'ok':
                return 'palette with an extra non-residue key rejected (%s)' % r[1]
            pal = new
        else:
            bad = dict(new)
            k = rng.choice(AA20)
            if kind == 'missing':
                del bad[k]
            elif kind == 'badcolour':
                bad[k] = rng.choice(['pink', 'crimson', '', '#ff0000', 'Reds', 'grey', 'cyan', 'magenta'])
            elif kind == 'case':
                bad[k] = rng.choice(['Red', 'BLUE', 'Green '])
            elif kind == 'nondict':
                bad = [(a, 'red') for a in AA20]
            r = outcome(o.set_HTMLColorResiduePalette, bad)
            if r[0] != 'exc':
                return 'invalid palette (%s at %s) accepted' % (kind, k)
        m = check_render(o, seq, pal, 'after update %d (%s)' % (step + 1, kind))
        if m:
            return m
    return None


CHECKS = {'series': chk_series}


def work(seed, count):
    rng = random.Random(seed)
    r = Result(PROP)
    seqs = [random_sequence(rng)[:rng.choice([1, 9, 10, 11, 49, 50, 51, 100, 101, 137])] for _ in range(count)] + [AA20 * 3]
    run_checks(r, 'series', chk_series, [(s, rng.randint(0, 10 ** 6)) for s in seqs])
    return r


def tasks(tier, seed):
    k = 8 if tier == 'quick' else 48
    return [('native.c20', 'work', (seed * 61 + i, 20)) for i in range(k)], dict(random_update_series=20 * k, updates_per_series='1..5')
