"""C03 native: deltaMax equals the documented family maximum, is composition-only and attained by the
returned permutant."""
import random
from collections import Counter
from .common import *
from .refs import *

PROP = 'C03'


def chk_dmax(inp):
    p, n, z, seed = inp
    rng = random.Random(seed)
    ref, arr = dmax_ref(p, n, z)
    seqs = [seq_of_composition(p, n, z, rng) for _ in range(3)] + [seq_of_composition(p, n, z, None)]
    for s in seqs:
        o = sp(s)
        v = quiet(o.get_deltaMax)
        if not close(v, ref, 1e-9, 1e-12):
            return 'get_deltaMax(%s)=%r but the documented family for (n+,n-,n0)=(%d,%d,%d) has maximum %r at %s' % (s, v, p, n, z, float(ref), arr)
        r = quiet(sp(s).get_deltaMax, True)
        if not (isinstance(r, tuple) and len(r) == 2):
            return 'get_deltaMax(True) returned %r' % (r,)
        v2, perm = r
        if perm is None or Counter(perm) != Counter(s):
            return 'permutant %r is not a rearrangement of %s' % (perm, s)
        if not close(v2, v, 1e-12, 1e-15):
            return 'value with permutant %r != value without %r' % (v2, v)
        dperm = delta_spec(perm, len(perm))
        if not close(dperm, v, 1e-9, 1e-12):
            return 'delta of returned permutant %s is %r, not deltaMax %r' % (perm, float(dperm), v)
        # cached dmax first, then the permutant
        o3 = sp(s)
        quiet(o3.get_kappa)
        r3 = quiet(o3.get_deltaMax, True)
        if r3[1] is None or Counter(r3[1]) != Counter(s) or not close(delta_spec(r3[1], len(s)), r3[0], 1e-9, 1e-12):
            return 'after get_kappa(), get_deltaMax(True) on %s returned %r' % (s, r3)
    return None


def chk_kappa_first(pat):
    """get_kappa() before get_deltaMax() on one object: delta-max must stay the composition's value"""
    s = spell_fixed(pat)
    p, n, z = pat.count('+'), pat.count('-'), pat.count('0')
    ref = dmax_ref(p, n, z)[0]
    o = sp(s)
    quiet(o.get_kappa)
    v = quiet(o.get_deltaMax)
    if not close(v, ref, 1e-9, 1e-12):
        return 'after get_kappa(), get_deltaMax(%s)=%r but the composition (%d,%d,%d) has documented maximum %r' % (s, v, p, n, z, float(ref))
    r = quiet(o.get_deltaMax, True)
    if r[1] is None or not close(delta_spec(r[1], len(s)), r[0], 1e-9, 1e-12) or not close(r[0], ref, 1e-9, 1e-12):
        return 'after get_kappa(), get_deltaMax(True) on %s returned %r' % (s, r)
    return None


CHECKS = {'dmax': chk_dmax, 'kappa_first': chk_kappa_first}


def work_patterns(n, stride, off):
    r = Result(PROP)
    pats = [p for i, p in enumerate(canonical_patterns(n)) if i % stride == off]
    run_checks(r, 'kappa_first', chk_kappa_first, pats)
    return r


def work(comps):
    r = Result(PROP)
    run_checks(r, 'dmax', chk_dmax, comps)
    return r


def tasks(tier, seed):
    nmax = 14 if tier == 'quick' else 26
    comps = []
    for N in range(1, nmax + 1):
        for (p, n, z) in compositions(N):
            comps.append((p, n, z, seed + N))
    rng = random.Random(seed)
    extra = 60 if tier == 'quick' else 400
    for _ in range(extra):
        z = rng.choice([0, 1, 5, 16, 17, 18, 19, 20, 25, 40])
        p = rng.randint(0, 12)
        n = rng.randint(0, 12)
        if p + n + z >= 1:
            comps.append((p, n, z, rng.randint(0, 10 ** 6)))
    rng.shuffle(comps)
    k = 32
    chunks = [comps[i::k] for i in range(k)]
    t = [('native.c03', 'work', (c,)) for c in chunks if c]
    pmax = 8 if tier == 'quick' else 10
    for n in range(1, pmax + 1):
        stride = 1 if n < 8 else 8
        t += [('native.c03', 'work_patterns', (n, stride, off)) for off in range(stride)]
    return t, dict(kappa_first_history_on_canonical_patterns_up_to=pmax, all_compositions_up_to_length=nmax, extra_random_compositions=extra,
                                                                   arrangements_per_composition=4)
