"""C01 native: kappa = delta/deltaMax with the (1,1.1) clamp, -1 exactly when deltaMax == 0, range."""
import random
from .common import *
from .refs import *

PROP = 'C01'


def chk_kappa(seq):
    o = sp(seq)
    k = quiet(o.get_kappa)
    dm = quiet(o.get_deltaMax)
    d = quiet(o.get_delta)
    if (k == -1) != (dm == 0):
        return 'get_kappa=%r but get_deltaMax=%r (-1 must occur exactly when deltaMax is 0)' % (k, dm)
    if dm != 0:
        exp = kappa_from(d, dm)
        if not close(k, exp, 1e-12, 1e-15):
            return 'get_kappa=%r but delta/deltaMax=%r/%r -> %r' % (k, d, dm, exp)
    if not close(d, delta_spec(seq, len(seq))):
        return 'get_delta=%r differs from the definition %r' % (d, float(delta_spec(seq, len(seq))))
    o2 = sp(seq)          # fresh object, kappa first (cache empty)
    if quiet(o2.get_kappa) != k:
        return 'kappa differs between a fresh object and one whose deltaMax was cached'
    return None


def chk_range(seq):
    k = quiet(sp(seq).get_kappa)
    if k == -1 or 0 <= k <= 1:
        return None
    return 'get_kappa(%s)=%r outside {-1} U [0,1]' % (seq, k)


def finding_key(f):
    if f['check'] == 'range':
        return 'kappa>1:' + canon(pattern_of(f['input']))
    return None


CHECKS = {'kappa': chk_kappa, 'range': chk_range}


def work_patterns(n, seed, stride, offset):
    rng = random.Random(seed * 31 + n)
    r = Result(PROP)
    seqs = []
    for i, p in enumerate(canonical_patterns(n)):
        if i % stride == offset:
            seqs.append(spell(p, rng))
    run_checks(r, 'kappa', chk_kappa, seqs)
    run_checks(r, 'range', chk_range, seqs)
    for f in r.failures:
        f['finding_key'] = finding_key(f)
    return r


def work_random(seed, count):
    rng = random.Random(seed)
    r = Result(PROP)
    seqs = [random_sequence(rng) for _ in range(count)]
    run_checks(r, 'kappa', chk_kappa, seqs)
    short = [s for s in seqs if len(s) <= 12]
    run_checks(r, 'range', chk_range, short)
    for s in seqs:
        if len(s) > 12 and chk_range(s) is not None:
            r.notes.append('observation (not judged, length > 12): ' + chk_range(s))
    for f in r.failures:
        f['finding_key'] = finding_key(f)
    return r


def tasks(tier, seed):
    nmax = 9 if tier == 'quick' else 12
    t = []
    for n in range(1, nmax + 1):
        stride = 1 if n <= 8 else (4 if n <= 10 else 16)
        for off in range(stride):
            t.append(('native.c01', 'work_patterns', (n, seed, stride, off)))
    nr = 8 if tier == 'quick' else 64
    t += [('native.c01', 'work_random', (seed * 101 + i, 25)) for i in range(nr)]
    return t, dict(exhaustive_canonical_patterns_up_to_length=nmax, random_sequences=nr * 25,
                   range_clause_judged_up_to_length=12)
