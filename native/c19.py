"""C19 native: artists handed to matplotlib (Agg back end) are read back: marker coordinates, title,
limits, labels, returned handle, region polygons against the region classification, bar heights."""
import os
import random
import tempfile
from .common import *
from .refs import *

PROP = 'C19'


def read_axes():
    import matplotlib.pyplot as plt
    from matplotlib.patches import Polygon, Rectangle
    ax = plt.gca()
    pts = []
    for c in ax.collections:
        for xy in c.get_offsets():
            pts.append((float(xy[0]), float(xy[1])))
    polys = [[(float(a), float(b)) for a, b in p.get_xy()] for p in ax.patches if isinstance(p, Polygon)]
    bars = [(float(p.get_x()) + float(p.get_width()) / 2.0, float(p.get_height())) for p in ax.patches if isinstance(p, Rectangle)]
    return dict(points=pts, polys=polys, bars=bars, title=ax.get_title(), xlim=tuple(float(x) for x in ax.get_xlim()),
                ylim=tuple(float(x) for x in ax.get_ylim()), texts=[t.get_text() for t in ax.texts])


def capture(fn, *a, **k):
    """run a plotting entry point; returns (outcome, snapshot of the axes at show/save/return time)"""
    import matplotlib.pyplot as plt
    plt.close('all')
    snaps = []

    def snap(*aa, **kk):
        snaps.append(read_axes())
    old = plt.show, plt.savefig
    plt.show, plt.savefig = snap, snap
    try:
        r = outcome(fn, *a, **k)
        if r[0] == 'ok' and r[1] is plt:
            snaps.append(read_axes())
    finally:
        plt.show, plt.savefig = old
        plt.close('all')
    return r, (snaps[-1] if snaps else None)


def inside(poly, x, y, eps=1e-9):
    """closed convex polygon containment"""
    if poly[0] == poly[-1]:
        poly = poly[:-1]
    sign = 0
    n = len(poly)
    for i in range(n):
        x1, y1 = poly[i]
        x2, y2 = poly[(i + 1) % n]
        cr = (x2 - x1) * (y - y1) - (y2 - y1) * (x - x1)
        if abs(cr) <= eps:
            continue
        s = 1 if cr > 0 else -1
        if sign == 0:
            sign = s
        elif s != sign:
            return False
    return True


def common_checks(name, snap, r, getfig, pts, title, xl, yl, labels):
    import matplotlib.pyplot as plt
    if r[0] != 'ok':
        return '%s raised %s' % (name, r[1])
    if getfig is True and r[1] is not plt:
        return '%s with getFig=True returned %r instead of the figure handle' % (name, r[1])
    if snap is None:
        return '%s drew nothing (no show/savefig/returned handle)' % name
    got = sorted(snap['points'])
    if len(got) != len(pts) or any(not (close(a[0], b[0], 1e-9, 1e-9) and close(a[1], b[1], 1e-9, 1e-9)) for a, b in zip(got, sorted(pts))):
        return '%s: markers at %s, expected %s' % (name, got[:4], sorted(pts)[:4])
    if snap['title'] != title:
        return '%s: title %r, requested %r' % (name, snap['title'], title)
    if not (close(snap['xlim'][0], 0, ab=1e-9) and close(snap['xlim'][1], xl) and close(snap['ylim'][0], 0, ab=1e-9) and close(snap['ylim'][1], yl)):
        return '%s: axis limits x=%s y=%s, requested (0,%s) (0,%s)' % (name, snap['xlim'], snap['ylim'], xl, yl)
    for lb in labels:
        if lb and lb not in snap['texts']:
            return '%s: label %r not drawn (texts %s)' % (name, lb, snap['texts'][:5])
    return None


def chk_phase(inp):
    seq, label, title, xl, yl, which = inp
    import localcider.plots as P
    o = sp(seq)
    fp, fn = quiet(o.get_fraction_positive), quiet(o.get_fraction_negative)
    fd, path = tempfile.mkstemp(prefix='c19_', suffix='.png')
    os.close(fd)
    try:
        if which == 'obj_show_fig':
            r, s = capture(o.show_phaseDiagramPlot, label, title, True, xl, yl, 10, True)
            gf = True
        elif which == 'obj_show':
            r, s = capture(o.show_phaseDiagramPlot, label=label, title=title, xLim=xl, yLim=yl)
            gf = False
        elif which == 'obj_save':
            r, s = capture(o.save_phaseDiagramPlot, path, label, title, True, xl, yl)
            gf = False
        elif which == 'mod_show_fig':
            r, s = capture(P.show_single_phasePlot, fp, fn, label, title, True, xl, yl, 10, True)
            gf = True
        elif which == 'mod_save':
            r, s = capture(P.save_single_phasePlot, fp, fn, path, label, title, True, xl, yl)
            gf = False
        else:
            return None
    finally:
        if os.path.exists(path):
            os.remove(path)
    m = common_checks('%s(%s)' % (which, seq), s, r, gf, [(fp, fn)], title, xl, yl, [label])
    if m:
        return m
    # regions drawn == regions classified
    reg = quiet(o.get_phasePlotRegion)
    polys = s['polys']
    if len(polys) != 5:
        return '%s: %d region polygons drawn' % (which, len(polys))
    if not inside(polys[reg - 1], fp, fn):
        return 'sequence %s is classified in region %d but its marker (%r,%r) lies outside the polygon drawn for that region %s' % (seq, reg, fp, fn, polys[reg - 1])
    others = [k + 1 for k in range(5) if k != reg - 1 and inside(polys[k], fp, fn, eps=-1e-9 if False else 1e-12) and strictly_inside(polys[k], fp, fn)]
    if others:
        return 'sequence %s (region %d) has its marker strictly inside the polygon drawn for region %s' % (seq, reg, others)
    return None


def strictly_inside(poly, x, y):
    if poly[0] == poly[-1]:
        poly = poly[:-1]
    sign = 0
    n = len(poly)
    for i in range(n):
        x1, y1 = poly[i]
        x2, y2 = poly[(i + 1) % n]
        cr = (x2 - x1) * (y - y1) - (y2 - y1) * (x - x1)
        if abs(cr) <= 1e-9:
            return False
        s = 1 if cr > 0 else -1
        if sign == 0:
            sign = s
        elif s != sign:
            return False
    return True


def chk_uversky(inp):
    seq, label, title, xl, yl, which = inp
    import localcider.plots as P
    o = sp(seq)
    h, c = quiet(o.get_uversky_hydropathy), quiet(o.get_mean_net_charge)
    fd, path = tempfile.mkstemp(prefix='c19_', suffix='.png')
    os.close(fd)
    try:
        if which == 'obj_show_fig':
            r, s = capture(o.show_uverskyPlot, label, title, True, xl, yl, 10, True)
            gf = True
        elif which == 'obj_save':
            r, s = capture(o.save_uverskyPlot, path, label, title, True, xl, yl)
            gf = False
        elif which == 'mod_show_fig':
            r, s = capture(P.show_single_uverskyPlot, h, c, label, title, True, xl, yl, 10, True)
            gf = True
        elif which == 'mod_save':
            r, s = capture(P.save_single_uverskyPlot, h, c, path, label, title, True, xl, yl)
            gf = False
        else:
            r, s = capture(o.show_uverskyPlot, label=label, title=title, xLim=xl, yLim=yl)
            gf = False
    finally:
        if os.path.exists(path):
            os.remove(path)
    return common_checks('uversky %s(%s)' % (which, seq), s, r, gf, [(c, h)], title, xl, yl, [label])


def chk_multi(inp):
    seqs, labels, title, xl, yl, which, repeat = inp
    import localcider.plots as P
    objs = [sp(s) for s in seqs]
    fp = [quiet(o.get_fraction_positive) for o in objs]
    fn = [quiet(o.get_fraction_negative) for o in objs]
    hy = [quiet(o.get_uversky_hydropathy) for o in objs]
    nc = [quiet(o.get_mean_net_charge) for o in objs]
    fd, path = tempfile.mkstemp(prefix='c19_', suffix='.png')
    os.close(fd)
    try:
        for rep in range(repeat):
            sub = slice(0, len(seqs) - rep) if len(seqs) - rep >= 1 else slice(0, len(seqs))
            n = len(seqs[sub])
            lab = labels[sub] if labels else None
            kw = dict(title=title, xLim=xl, yLim=yl)
            if which == 'phase_show':
                args = (fp[sub], fn[sub]) + ((lab,) if lab else ())
                r, s = capture(P.show_multiple_phasePlot, *args, getFig=True, **kw)
                pts, gf = list(zip(fp[sub], fn[sub])), True
            elif which == 'phase_show2':
                args = (objs[sub],) + ((lab,) if lab else ())
                r, s = capture(P.show_multiple_phasePlot2, *args, getFig=True, **kw)
                pts, gf = list(zip(fp[sub], fn[sub])), True
            elif which == 'phase_save':
                args = (fp[sub], fn[sub], path) + ((lab,) if lab else ())
                r, s = capture(P.save_multiple_phasePlot, *args, **kw)
                pts, gf = list(zip(fp[sub], fn[sub])), False
            elif which == 'phase_save2':
                args = (objs[sub], path) + ((lab,) if lab else ())
                r, s = capture(P.save_multiple_phasePlot2, *args, **kw)
                pts, gf = list(zip(fp[sub], fn[sub])), False
            elif which == 'uv_show':
                args = (hy[sub], nc[sub]) + ((lab,) if lab else ())
                r, s = capture(P.show_multiple_uverskyPlot, *args, getFig=True, **kw)
                pts, gf = list(zip(nc[sub], hy[sub])), True
            elif which == 'uv_show2':
                args = (objs[sub],) + ((lab,) if lab else ())
                r, s = capture(P.show_multiple_uverskyPlot2, *args, getFig=True, **kw)
                pts, gf = list(zip(nc[sub], hy[sub])), True
            elif which == 'uv_save':
                args = (hy[sub], nc[sub], path) + ((lab,) if lab else ())
                r, s = capture(P.save_multiple_uverskyPlot, *args, **kw)
                pts, gf = list(zip(nc[sub], hy[sub])), False
            else:
                args = (objs[sub], path) + ((lab,) if lab else ())
                r, s = capture(P.save_multiple_uverskyPlot2, *args, **kw)
                pts, gf = list(zip(nc[sub], hy[sub])), False
            m = common_checks('%s with %d sequences (call %d)' % (which, n, rep + 1), s, r, gf, pts, title, xl, yl, lab or [])
            if m:
                return m
    finally:
        if os.path.exists(path):
            os.remove(path)
    return None


def chk_linear(inp):
    seq, w, which, fig = inp
    o = sp(seq)
    prof = {'NCPR': o.get_linear_NCPR, 'FCR': o.get_linear_FCR, 'Sigma': o.get_linear_sigma, 'Hydropathy': o.get_linear_hydropathy}[which]
    exp = quiet(prof, w)
    fd, path = tempfile.mkstemp(prefix='c19_', suffix='.png')
    os.close(fd)
    try:
        if fig == 'show_fig':
            r, s = capture(getattr(o, 'show_linear' + which), w, True)
        elif fig == 'show':
            r, s = capture(getattr(o, 'show_linear' + which), w)
        else:
            r, s = capture(getattr(o, 'save_linear' + which), path, w)
    finally:
        if os.path.exists(path):
            os.remove(path)
    import matplotlib.pyplot as plt
    if r[0] != 'ok':
        return 'linear %s plot raised %s' % (which, r[1])
    if fig == 'show_fig' and r[1] is not plt:
        return 'show_linear%s(getFig=True) returned %r' % (which, r[1])
    if s is None:
        return 'linear %s plot drew nothing' % which
    bars = sorted(s['bars'])
    if len(bars) != len(seq):
        return 'linear %s plot of a %d-residue sequence has %d bars' % (which, len(seq), len(bars))
    for (x, h), px, ph in zip(bars, exp[0], exp[1]):
        if not close(x, px, 1e-9, 1e-9) or not close(h, ph, 1e-9, 1e-12):
            return 'linear %s plot: bar at %r with height %r, profile has position %r value %r' % (which, x, h, float(px), float(ph))
    return None


def chk_region_polys(N):
    """every composition of length N: the region the classifier reports is the drawn polygon its (f+, f-) point lies in (polygons read
    back from ONE drawn diagram; they do not depend on the sequence)"""
    o0 = sp('G' * N)
    r, s = capture(o0.show_phaseDiagramPlot, '', 'Diagram of states', True, 1, 1, 10, True)
    polys = s['polys']
    if len(polys) != 5:
        return '%d region polygons drawn' % len(polys)
    for p, n, z in compositions(N):
        seq = seq_of_composition(p, n, z, None)
        o = sp(seq)
        fp, fn = quiet(o.get_fraction_positive), quiet(o.get_fraction_negative)
        reg = quiet(o.get_phasePlotRegion)
        if not inside(polys[reg - 1], fp, fn):
            return 'composition (n+,n-,N)=(%d,%d,%d) is classified in region %d but its point (%r,%r) lies outside the polygon drawn for that region' % (p, n, N, reg, fp, fn)
        others = [k + 1 for k in range(5) if k != reg - 1 and strictly_inside(polys[k], fp, fn)]
        if others:
            return 'composition (n+,n-,N)=(%d,%d,%d) (region %d) lies strictly inside the polygon drawn for region %s' % (p, n, N, reg, others)
    return None


CHECKS = {'phase': chk_phase, 'uversky': chk_uversky, 'multi': chk_multi, 'linear': chk_linear, 'region_polys': chk_region_polys}


def work_regions(Ns, seed):
    r = Result(PROP)
    inps = []
    for N in Ns:
        for p, n, z in compositions(N):
            inps.append((seq_of_composition(p, n, z, None), '', 'Diagram of states', 1, 1, 'obj_show_fig'))
    run_checks(r, 'phase', chk_phase, inps)
    return r


def work_polys(Ns):
    r = Result(PROP)
    run_checks(r, 'region_polys', chk_region_polys, Ns)
    return r


def work(seed, count):
    rng = random.Random(seed)
    r = Result(PROP)
    ph, uv, mu, li = [], [], [], []
    for _ in range(count):
        s = random_sequence(rng)[:rng.choice([1, 3, 8, 20, 45])]
        label = rng.choice(['', 'seqA', 'my protein'])
        title = rng.choice(['Diagram of states', 'T1', 'custom title %d' % rng.randint(0, 99)])
        xl, yl = rng.choice([1, 0.5, 0.8]), rng.choice([1, 0.6, 0.9])
        for which in ('obj_show_fig', 'obj_show', 'obj_save', 'mod_show_fig', 'mod_save'):
            ph.append((s, label, title, xl, yl, which))
            uv.append((s, label, title.replace('Diagram of states', 'Uversky plot'), xl, yl, which))
        k = rng.randint(1, 4)
        seqs = [random_sequence(rng)[:rng.choice([2, 9, 30])] for _ in range(k)]
        for which in ('phase_show', 'phase_show2', 'phase_save', 'phase_save2', 'uv_show', 'uv_show2', 'uv_save', 'uv_save2'):
            labs = ['L%d' % i for i in range(k)] if rng.random() < 0.5 else None
            mu.append((seqs, labs, title, xl, yl, which, 2 if labs is None else 1))
        w = rng.randint(1, len(s))
        for which in ('NCPR', 'FCR', 'Sigma', 'Hydropathy'):
            li.append((s, w, which, rng.choice(['show_fig', 'show', 'save'])))
    run_checks(r, 'phase', chk_phase, ph)
    run_checks(r, 'uversky', chk_uversky, uv)
    run_checks(r, 'multi', chk_multi, mu)
    run_checks(r, 'linear', chk_linear, li)
    return r


def tasks(tier, seed):
    nmax = 14 if tier == 'quick' else 30
    k = 16
    Ns = list(range(1, nmax + 1)) + ([20, 40] if tier == 'quick' else [40, 60, 100])
    t = [('native.c19', 'work_regions', (Ns[i::k], seed)) for i in range(k) if Ns[i::k]]
    pmax = 60 if tier == 'quick' else 150
    PN = list(range(nmax + 1, pmax + 1))
    t += [('native.c19', 'work_polys', (PN[i::k],)) for i in range(k) if PN[i::k]]
    kk = 8 if tier == 'quick' else 32
    t += [('native.c19', 'work', (seed * 73 + i, 3)) for i in range(kk)]
    return t, dict(region_agreement_every_composition_up_to=nmax, region_vs_drawn_polygons_every_composition_up_to=pmax, extra_N=Ns[nmax:], entry_point_argument_combinations=kk * 3 * 22,
                   backend='matplotlib Agg; artists read back at show/savefig/return time')
