"""C16 native: phosphosites under arbitrary set/clear series, and the derived values."""
import itertools
import random
from .common import *
from .refs import *

PROP = 'C16'


def chk_series(inp):
    seq, ops_ = inp
    o = sp(seq)
    N = len(seq)
    model = []
    for op in ops_:
        if op == 'clear':
            quiet(o.clear_phosphosites)
            model = []
        else:
            arg = op[1]
            a = tuple(arg) if op[0] == 'tuple' else (arg if op[0] != 'int' else arg)
            r = outcome(o.set_phosphosites, a)
            if r[0] != 'ok':
                return 'set_phosphosites(%r) on %s raised %s' % (a, seq, r[1])
            for p in ([arg] if op[0] == 'int' else list(arg)):
                if 1 <= p <= N and seq[p - 1] in 'STY' and p not in model:
                    model.append(p)
        got = quiet(o.get_phosphosites)
        if list(got) != model:
            return 'after %s on %s get_phosphosites() = %r, expected %r' % (ops_[:ops_.index(op) + 1], seq, got, model)
        if quiet(o.get_sequence) != seq:
            return 'stored sequence changed to %s' % quiet(o.get_sequence)
        # derived values after EVERY call of the series (a value remembered from an earlier site list must not come back)
        ps = ''.join('E' if (i + 1) in model else c for i, c in enumerate(seq))
        if quiet(o.get_phosphosequence) != ps:
            return 'after %s: get_phosphosequence()=%s, expected %s (sites %s)' % (ops_[:ops_.index(op) + 1], quiet(o.get_phosphosequence), ps, model)
        ka = quiet(o.get_kappa_after_phosphorylation)
        ke = quiet(sp(ps).get_kappa)
        if not close(ka, ke, 1e-12, 1e-14):
            return 'after %s: get_kappa_after_phosphorylation()=%r but kappa(%s)=%r' % (ops_[:ops_.index(op) + 1], ka, ps, ke)
        if list(quiet(o.get_phosphosites)) != model:
            return 'get_phosphosites() changed to %r by the derived queries (expected %r)' % (quiet(o.get_phosphosites), model)
    ps = ''.join('E' if (i + 1) in model else c for i, c in enumerate(seq))
    sty = quiet(o.get_all_phosphorylatable_sites)
    if list(sty) != [i + 1 for i, c in enumerate(seq) if c in 'STY']:
        return 'get_all_phosphorylatable_sites()=%r' % (sty,)
    if len(model) <= 5:
        dist = quiet(o.get_full_phosphostatus_kappa_distribution)
        k = len(model)
        if len(dist) != 2 ** k:
            return 'distribution has %d entries for %d sites' % (len(dist), k)
        for j, bits in enumerate(itertools.product('01', repeat=k)):
            sub = list(seq)
            for b, p in zip(bits, model):
                if b == '1':
                    sub[p - 1] = 'E'
            sub = ''.join(sub)
            f = sp(sub)
            e = (quiet(f.get_kappa), quiet(f.get_fraction_positive), quiet(f.get_fraction_negative), quiet(f.get_FCR), quiet(f.get_NCPR),
                 quiet(f.get_mean_hydropathy))
            ent = dist[j]
            if tuple(ent[6]) != tuple(bits):
                return 'entry %d carries status %r, expected %r (binary counting order)' % (j, ent[6], bits)
            for x, y, nm in zip(ent[:6], e, ('kappa', 'f+', 'f-', 'FCR', 'NCPR', 'hydropathy')):
                if not close(x, y, 1e-12, 1e-14):
                    return 'entry %d (status %s, sites %s): %s=%r but the substituted sequence %s has %r' % (j, ''.join(bits), model, nm, x, sub, y)
        if list(quiet(o.get_phosphosites)) != model:
            return 'get_phosphosites() changed to %r after the distribution was computed (expected %r)' % (quiet(o.get_phosphosites), model)
    return None


CHECKS = {'series': chk_series}


def rand_ops(rng, seq):
    N = len(seq)
    sty = [i + 1 for i, c in enumerate(seq) if c in 'STY']
    ops_ = []
    for _ in range(rng.randint(1, 5)):
        if rng.random() < 0.15:
            ops_.append('clear')
            continue

        def pos():
            x = rng.random()
            if sty and x < 0.6:
                return rng.choice(sty)
            if x < 0.8:
                return rng.randint(1, N)
            return rng.choice([0, -1, -N, N + 1, N + 2, -N - 1, 10 ** 6])
        kind = rng.choice(['int', 'list', 'list', 'tuple'])
        if kind == 'int':
            ops_.append(('int', pos()))
        else:
            l = [pos() for _ in range(rng.randint(0, 4))]
            if l and rng.random() < 0.3:
                l.append(l[0])
            ops_.append((kind, l))
    return ops_


def work(seed, count):
    rng = random.Random(seed)
    r = Result(PROP)
    inps = []
    for _ in range(count):
        s = ''.join(rng.choice('STYSTYKEDRGAPQ' + AA20) for _ in range(rng.choice([1, 3, 6, 12, 25, 40])))
        inps.append((s, rand_ops(rng, s)))
    inps.append(('MSKTEYDRSAKETGYEDKRS', [('list', [2, 4]), ('list', [4, 6])]))
    inps.append(('MSKTEYDRSAKETGYEDKRS', [('list', [15, 6, 2])]))
    inps.append(('KSTYGS', [('list', [0]), ('list', [7]), ('int', -1), ('tuple', [6, 2])]))
    # same number of sites before and after a clear, at different positions
    inps.append(('KSEYGSDTKKSEY', [('list', [2, 4]), 'clear', ('list', [6, 8])]))
    inps.append(('ESKYKDTRSEEY', [('int', 2), 'clear', ('int', 12), 'clear', ('tuple', [7])]))
    for _ in range(3):
        s = ''.join(rng.choice('STYKEDRG') for _ in range(rng.randint(8, 20)))
        sty = [i + 1 for i, c in enumerate(s) if c in 'STY']
        if len(sty) >= 4:
            k = rng.randint(1, len(sty) // 2)
            a = rng.sample(sty, k)
            b = rng.sample([x for x in sty if x not in a], k)
            inps.append((s, [('list', a), 'clear', ('list', b)]))
    run_checks(r, 'series', chk_series, inps)
    return r


def tasks(tier, seed):
    k = 12 if tier == 'quick' else 64
    return [('native.c16', 'work', (seed * 59 + i, 25)) for i in range(k)], dict(random_call_series=25 * k, series_length='1..5 calls',
                                                                               positions='S/T/Y, other in-range, 0, negative, beyond the end, duplicates; int/list/tuple')
