/-
  Mathematical lemmas *under* the contracts of C11 (they are statements about ℝ and
  finite sets, not about localCIDER's code).  Checked with `lean Entropy.lean`
  (Lean 4.33 + Mathlib v4.33, offline).  They replace the axioms A-GIBBS and A-CARD
  of DESIGN.md §1.4.
-/
import Mathlib
open Real Finset

/-- Gibbs bound: the (natural-log) Shannon entropy of a distribution on `n` points is `≤ log n`. -/
theorem gibbs {n : ℕ} (hn : 0 < n) (p : Fin n → ℝ) (hp : ∀ i, 0 ≤ p i) (hs : ∑ i, p i = 1) :
    ∑ i, Real.negMulLog (p i) ≤ Real.log n := by
  have hconc := Real.concaveOn_negMulLog
  have hw : ∀ i ∈ (Finset.univ : Finset (Fin n)), (0:ℝ) ≤ (1 / (n:ℝ)) := by
    intro i _; positivity
  have hsum : ∑ i ∈ (Finset.univ : Finset (Fin n)), (1 / (n:ℝ)) = 1 := by
    simp; field_simp
  have hmem : ∀ i ∈ (Finset.univ : Finset (Fin n)), p i ∈ Set.Ici (0:ℝ) := by
    intro i _; exact hp i
  have J := hconc.le_map_sum hw hsum hmem
  simp only [smul_eq_mul] at J
  rw [← Finset.mul_sum, ← Finset.mul_sum, hs] at J
  have hnpos : (0:ℝ) < n := by exact_mod_cast hn
  have : Real.negMulLog (1 / (n:ℝ) * 1) = (1 / (n:ℝ)) * Real.log n := by
    simp [Real.negMulLog, Real.log_inv]
  rw [this] at J
  have := mul_le_mul_of_nonneg_left J hnpos.le
  field_simp at this
  linarith

/-- The shape the `CWF` verification condition produces: the loop accumulates
    `p * (log p / log A)` only when `p > 0` (`math.log(p, A)` is `log p / log A`)
    and the function returns the negated total.  `A ≥ 2` is the property's
    "at least two letters" precondition. -/
theorem wf_le_one {A : ℕ} (hA : 2 ≤ A) (p : Fin A → ℝ) (hp : ∀ i, 0 ≤ p i) (hs : ∑ i, p i = 1) :
    -(∑ i, (if 0 < p i then p i * (Real.log (p i) / Real.log A) else 0)) ≤ 1 := by
  have hApos : 0 < A := by omega
  have hlog : 0 < Real.log (A:ℝ) := Real.log_pos (by exact_mod_cast hA)
  have G := gibbs hApos p hp hs
  have key : ∀ i, (if 0 < p i then p i * (Real.log (p i) / Real.log A) else 0)
      = -(Real.negMulLog (p i)) / Real.log A := by
    intro i
    by_cases h : 0 < p i
    · simp [h, Real.negMulLog]; ring
    · have : p i = 0 := le_antisymm (not_lt.mp h) (hp i)
      simp [this, Real.negMulLog]
  simp_rw [key]
  rw [← Finset.sum_div, Finset.sum_neg_distrib, neg_div, neg_neg, div_le_one hlog]
  exact G

/-- A-CARD: there are at most `A^k` distinct words of length `k` over `A` letters
    (bounds the n-gram set of the linguistic complexity). -/
theorem card_words (A k : ℕ) (s : Finset (Fin k → Fin A)) : s.card ≤ A ^ k := by
  simpa using Finset.card_le_univ s

#print axioms wf_le_one
#print axioms card_words
