/-
  Lemmas under the contracts of C03/C17 ("is a rearrangement of"): the SMT side proves
  that the new sequence is `old ∘ ρ` for an *injective* index map `ρ : [0,N) → [0,N)`
  that fixes the frozen positions; these lemmas lift that to equality of every letter
  count (hence of n+, n-, n0 and of every composition parameter).
-/
import Mathlib
open Finset

/-- an injective self-map of a finite index range is a bijection -/
theorem inj_bij {N : ℕ} (ρ : Fin N → Fin N) (h : Function.Injective ρ) : Function.Bijective ρ :=
  Finite.injective_iff_bijective.mp h

/-- A-PERM: composing with a bijection of the index range preserves the number of
    positions holding any given letter -/
theorem perm_counts {N : ℕ} {α : Type} [DecidableEq α] (s : Fin N → α) (ρ : Fin N → Fin N)
    (h : Function.Injective ρ) (c : α) :
    (Finset.univ.filter (fun j => s (ρ j) = c)).card = (Finset.univ.filter (fun j => s j = c)).card := by
  have hb := inj_bij ρ h
  let e : Fin N ≃ Fin N := Equiv.ofBijective ρ hb
  rw [Finset.card_filter, Finset.card_filter]
  exact Equiv.sum_comp e (fun j => if s j = c then 1 else 0)

#print axioms perm_counts
