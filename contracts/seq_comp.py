"""Contracts: composition parameters (C04)."""
from .common import SEQ, mk_sequence

K = SEQ + ':Sequence.'
CONTRACT = {}
LOOPS = {}

CONTRACT[K + 'meanHydropathy'] = dict(self=mk_sequence(), modifies=[],
                                      ensures=['result == res_sum(T_kd_shifted, self.seq, 0, self.len) / self.len'])
LOOPS[K + 'meanHydropathy'] = {0: dict(index='i', invariant=['ans == res_sum(T_kd_shifted, self.seq, 0, i) / self.len'], types={'ans': 'real'})}

CONTRACT[K + 'uverskyHydropathy'] = dict(self=mk_sequence(), modifies=[],
                                         ensures=['result == res_sum(T_kd_uversky, self.seq, 0, self.len) / self.len'])
LOOPS[K + 'uverskyHydropathy'] = {0: dict(index='idx', invariant=['ans == res_sum(T_kd_uversky, self.seq, 0, idx) / self.len'], types={'ans': 'real'})}

CONTRACT[K + 'meanWWHydropathy'] = dict(self=mk_sequence(), modifies=[],
                                        ensures=['result == res_sum(T_ww, self.seq, 0, self.len) / self.len'])
LOOPS[K + 'meanWWHydropathy'] = {0: dict(index='idx', invariant=['ans == res_sum(T_ww, self.seq, 0, idx) / self.len'], types={'ans': 'real'})}

CONTRACT[K + 'FPPII_chain'] = dict(
    self=mk_sequence(), params={'mode': ('const', 'hilser')}, modifies=[],
    cases=[dict(params={'mode': ('const', m)}) for m in ('hilser', 'creamer', 'kallenbach', 'Hilser')],
    ensures=['result == res_sum(T_ppii(mode.lower()), self.seq, 0, self.len) / self.len'])
LOOPS[K + 'FPPII_chain'] = {0: dict(index='i', invariant=['total == res_sum(T_ppii(mode.lower()), self.seq, 0, i)'], types={'total': 'real'})}

CONTRACT[K + 'molecular_weight'] = dict(self=mk_sequence(), modifies=[],
                                        ensures=['result == res_sum(T_mw, self.seq, 0, self.len) - 18 * (self.len - 1)'])
LOOPS[K + 'molecular_weight'] = {0: dict(index='k', invariant=['total == res_sum(T_mw, self.seq, 0, k)'], types={'total': 'real'})}

CONTRACT[K + 'fraction_disorder_promoting'] = dict(self=mk_sequence(), modifies=[],
                                                   ensures=['result == toreal(count_of(DISORDER, self.seq, 0, self.len)) / self.len'])
LOOPS[K + 'fraction_disorder_promoting'] = {0: dict(index='k', invariant=['D_count == count_of(DISORDER, self.seq, 0, k)',
                                                                         'D_count + O_count == k'])}

CONTRACT[K + 'amino_acid_fraction'] = dict(
    self=mk_sequence(), modifies=[], returns='dict:ACDEFGHIKLMNPQRSTVWY:real',
    ensures=['length(result) == 20',
             'dict_all(result, lambda a, v: v == toreal(cnt(lambda j: self.seq[j] == a, 0, self.len)) / self.len)'])
LOOPS[K + 'amino_acid_fraction'] = {0: dict(index='k', invariant=[
    'dict_all(AADICT, lambda a, v: v == cnt(lambda j: self.seq[j] == a, 0, k))'])}
