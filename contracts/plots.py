"""Contracts: plotting entry points (C19).  matplotlib is not modelled: every call into it is recorded with its arguments
(`effect(name)`), and the contracts state what is handed to it.  The polygon theorem ties the drawn regions to the
region classification proved in C08."""
import ast
from fractions import Fraction
from .seqparams import mk_seqparams, SP
from .common import SEQ

CONTRACT = {}
LOOPS = {}
SPEC = {}
PLT = 'localcider/backend/plotting.py:'


def fill_polygons(verifier, funcname):
    """vertex lists of the plt.fill(...) calls in a function of backend/plotting.py, read from the AST"""
    fi = verifier.sb.func(PLT + funcname)
    polys = []
    for n in ast.walk(fi.node):
        if isinstance(n, ast.Call) and isinstance(n.func, ast.Attribute) and n.func.attr == 'fill' and len(n.args) >= 2:
            xs = [Fraction(ast.get_source_segment(fi.module.source, e)) for e in n.args[0].elts]
            ys = [Fraction(ast.get_source_segment(fi.module.source, e)) for e in n.args[1].elts]
            polys.append(list(zip(xs, ys)))
    return polys


def polygon_theorem(verifier):
    """C19.c: for every point of the composition triangle, the region number assigned by the classification (C08 spec)
    is the number of a drawn polygon that contains the point; polygon interiors are pairwise disjoint (QF_LRA)."""
    import z3
    from pyvc.interp import Obligation
    polys = fill_polygons(verifier, 'finalize_DasPappu')
    obs = []

    def ob(name, pc, goal, note):
        obs.append(Obligation('C19.polygons.' + name, pc, goal, 'theorem', 'theorem:polygons', 0, [], (), note))
    ob('five_polygons', [], z3.BoolVal(len(polys) == 5), 'finalize_DasPappu fills five regions')
    if len(polys) != 5:
        return obs
    x, y = z3.Reals('x y')

    def side(p, q):
        (x1, y1), (x2, y2) = p, q
        return (z3.RealVal(str(x2 - x1)) * (y - z3.RealVal(str(y1)))) - (z3.RealVal(str(y2 - y1)) * (x - z3.RealVal(str(x1))))

    def orient(poly):
        a = sum((poly[i][0] * poly[(i + 1) % len(poly)][1] - poly[(i + 1) % len(poly)][0] * poly[i][1]) for i in range(len(poly)))
        return 1 if a > 0 else -1

    def inside(poly, strict=False):
        o = orient(poly)
        cs = []
        for i in range(len(poly)):
            s_ = side(poly[i], poly[(i + 1) % len(poly)])
            cs.append((s_ * o > 0) if strict else (s_ * o >= 0))
        return z3.And(cs)
    tri = [x >= 0, y >= 0, x + y <= 1]
    fcr, ncpr = x + y, x - y
    q14, q720 = z3.RealVal('1/4'), z3.RealVal('7/20')
    region = z3.If(fcr < q14, 1, z3.If(fcr <= q720, 2, z3.If(z3.And(ncpr < q720, -ncpr < q720), 3, z3.If(x > y, 5, 4))))
    for k in range(5):
        ob('region%d_inside_its_polygon' % (k + 1), tri + [region == k + 1], inside(polys[k]),
           'a composition classified in region %d lies in the closed polygon drawn for it %s' % (k + 1, [(float(a), float(b)) for a, b in polys[k]]))
    for i in range(5):
        for j in range(i + 1, 5):
            ob('interiors_disjoint_%d_%d' % (i + 1, j + 1), tri + [inside(polys[i], True), inside(polys[j], True)], z3.BoolVal(False),
               'the interiors of the polygons of regions %d and %d do not overlap' % (i + 1, j + 1))
    return obs


EXTRA = {'C19': polygon_theorem}

# ----------------------------------------------------------------------------- forwarding to matplotlib
_FP = 'toreal(npos(self.SeqObj.seq, 0, self.SeqObj.len)) / self.SeqObj.len'
_FN = 'toreal(nneg(self.SeqObj.seq, 0, self.SeqObj.len)) / self.SeqObj.len'
_HY = 'res_sum(T_kd_uversky, self.SeqObj.seq, 0, self.SeqObj.len) / self.SeqObj.len'
_NC = 'absv(toreal(npos(self.SeqObj.seq, 0, self.SeqObj.len) - nneg(self.SeqObj.seq, 0, self.SeqObj.len)) / self.SeqObj.len)'
_COMMON = ['effect_count("pyplot.scatter") == 1', 'effect("pyplot.title")[0] is title',
           'effect("pyplot.xlim")[0][0] == 0', 'effect("pyplot.xlim")[0][1] is xLim',
           'effect("pyplot.ylim")[0][0] == 0', 'effect("pyplot.ylim")[0][1] is yLim']
_PARAMS = {'label': 'str', 'title': 'str', 'legendOn': ('const', True), 'xLim': 'real', 'yLim': 'real', 'fontSize': ('const', 10)}


def _plot_contract(x, y, getfig, save=False):
    params = dict(_PARAMS)
    if save:
        params = dict({'filename': ('const', '/nonexistent/verif_plot.png')}, **params)
        params['saveFormat'] = ('const', 'png')
    else:
        params['getFig'] = ('const', getfig)
    ens = ['effect("pyplot.scatter")[0] == %s' % x, 'effect("pyplot.scatter")[1] == %s' % y] + _COMMON
    ens.append('implies(length(label) > 0, effect("pyplot.annotate")[0][0] is label)' if False else 'True')
    if save:
        ens.append('effect_count("pyplot.savefig") == 1')
    elif getfig:
        ens.append('is_pyplot(result)')
    else:
        ens.append('effect_count("pyplot.show") == 1')
    lem = ['%s(self.SeqObj.seq, 0, self.SeqObj.len)' % l for l in ('count_partition', 'npos_nonneg', 'nneg_nonneg', 'nneut_nonneg')]
    return dict(self=mk_seqparams(), params=params, requires=['xLim > 0', 'yLim > 0'], raises=[], modifies=[], ensures=ens, lemmas=lem)


CONTRACT[SP + 'show_phaseDiagramPlot'] = dict(_plot_contract(_FP, _FN, True),
                                              cases=[dict(params={'getFig': ('const', True)}, ensures=['is_pyplot(result)']),
                                                     dict(params={'getFig': ('const', False)}, ensures=['effect_count("pyplot.show") == 1'])])
CONTRACT[SP + 'show_phaseDiagramPlot']['ensures'] = [e for e in CONTRACT[SP + 'show_phaseDiagramPlot']['ensures'] if e != 'is_pyplot(result)']
CONTRACT[SP + 'show_uverskyPlot'] = dict(_plot_contract(_NC, _HY, True),
                                         cases=[dict(params={'getFig': ('const', True)}, ensures=['is_pyplot(result)']),
                                                dict(params={'getFig': ('const', False)}, ensures=['effect_count("pyplot.show") == 1'])])
CONTRACT[SP + 'show_uverskyPlot']['ensures'] = [e for e in CONTRACT[SP + 'show_uverskyPlot']['ensures'] if e != 'is_pyplot(result)']
CONTRACT[SP + 'save_phaseDiagramPlot'] = _plot_contract(_FP, _FN, False, save=True)
CONTRACT[SP + 'save_uverskyPlot'] = _plot_contract(_NC, _HY, False, save=True)


def is_pyplot(v):
    from pyvc.sandbox import OpaqueModule
    return isinstance(v, OpaqueModule) and v.__name__.endswith('pyplot')


SPEC.update(dict(is_pyplot=is_pyplot))

# ----------------------------------------------------------------------------- plots module (thin wrappers around backend.plotting)
PM = 'localcider/plots.py:'
_P2 = {'label': 'str', 'title': 'str', 'legendOn': ('const', True), 'xLim': 'real', 'yLim': 'real', 'fontSize': ('const', 10)}


def _mod_contract(first, second, x, y, save, getfig=True):
    params = {first: 'real', second: 'real'}
    if save:
        params['filename'] = ('const', '/nonexistent/verif_plot.png')
    params.update(_P2)
    if save:
        params['saveFormat'] = ('const', 'png')
    else:
        params['getFig'] = ('const', getfig)
    ens = ['effect("pyplot.scatter")[0] == %s' % x, 'effect("pyplot.scatter")[1] == %s' % y] + _COMMON
    ens.append('effect_count("pyplot.savefig") == 1' if save else ('is_pyplot(result)' if getfig else 'effect_count("pyplot.show") == 1'))
    req = ['xLim > 0', 'yLim > 0']
    if first == 'fp':
        req += ['And(0 <= fp, fp <= 1, 0 <= fn, fn <= 1)']
    return dict(params=params, requires=req, raises=[], modifies=[], ensures=ens)


CONTRACT[PM + 'show_single_phasePlot'] = _mod_contract('fp', 'fn', 'fp', 'fn', False)
CONTRACT[PM + 'save_single_phasePlot'] = _mod_contract('fp', 'fn', 'fp', 'fn', True)
CONTRACT[PM + 'show_single_uverskyPlot'] = _mod_contract('hydropathy', 'mean_net_charge', 'mean_net_charge', 'hydropathy', False)
CONTRACT[PM + 'save_single_uverskyPlot'] = _mod_contract('hydropathy', 'mean_net_charge', 'mean_net_charge', 'hydropathy', True)


def _two_reals(prefix):
    return lambda it, case: [it.fresh(prefix + '0', 'real'), it.fresh(prefix + '1', 'real')]


def _multi_contract(first, second, xname, yname, save, labels):
    params = {first: _two_reals(first), second: _two_reals(second)}
    if save:
        params['filename'] = ('const', '/nonexistent/verif_plot.png')
    lab = 'label' if (first == 'fp_list' and not save) else 'label_list'
    params[lab] = (lambda it, case: ['a', 'b']) if labels else (lambda it, case: [])
    params.update({'title': 'str', 'legendOn': ('const', True), 'xLim': 'real', 'yLim': 'real', 'fontSize': ('const', 10)})
    if save:
        params['saveFormat'] = ('const', 'png')
    else:
        params['getFig'] = ('const', True)
    ens = ['effect_count("pyplot.scatter") == 2',
           'effect("pyplot.scatter", 0)[0] is %s[0]' % xname, 'effect("pyplot.scatter", 0)[1] is %s[0]' % yname,
           'effect("pyplot.scatter", 1)[0] is %s[1]' % xname, 'effect("pyplot.scatter", 1)[1] is %s[1]' % yname] + _COMMON[1:]
    ens.append('effect_count("pyplot.savefig") == 1' if save else 'is_pyplot(result)')
    req = ['xLim > 0', 'yLim > 0']
    if first == 'fp_list':
        req += ['And(0 <= fp_list[0], fp_list[0] <= 1, 0 <= fn_list[0], fn_list[0] <= 1, 0 <= fp_list[1], fp_list[1] <= 1, 0 <= fn_list[1], fn_list[1] <= 1)']
    return dict(params=params, requires=req, raises=[], modifies=[], ensures=ens)


for _lab in (False, True):
    _t = '#labels' if _lab else ''
    CONTRACT[PM + 'show_multiple_phasePlot' + _t] = _multi_contract('fp_list', 'fn_list', 'fp_list', 'fn_list', False, _lab)
    CONTRACT[PM + 'save_multiple_phasePlot' + _t] = _multi_contract('fp_list', 'fn_list', 'fp_list', 'fn_list', True, _lab)
    CONTRACT[PM + 'show_multiple_uverskyPlot' + _t] = _multi_contract('hydropathy_list', 'mean_net_charge_list', 'mean_net_charge_list', 'hydropathy_list', False, _lab)
    CONTRACT[PM + 'save_multiple_uverskyPlot' + _t] = _multi_contract('hydropathy_list', 'mean_net_charge_list', 'mean_net_charge_list', 'hydropathy_list', True, _lab)

# ----------------------------------------------------------------------------- linear-profile plots (C19.d): bar positions / heights
def _linear(which, stat):
    def mk(getfig, save):
        params = {'blobLen': 'int'}
        if save:
            params = dict({'filename': ('const', '/nonexistent/verif_plot.png')}, **params)
            params['saveFormat'] = ('const', 'png')
        else:
            params['getFig'] = ('const', getfig)
        ens = ['effect_count("pyplot.bar") == 1',
               'positions_ok(effect("pyplot.bar")[0], self.SeqObj.len)',
               'profile_ok(effect("pyplot.bar")[1], self.SeqObj.len, blobLen, lambda i: %s)' % stat]
        ens.append('effect_count("pyplot.savefig") == 1' if save else ('is_pyplot(result)' if getfig else 'effect_count("pyplot.show") == 1'))
        return dict(self=mk_seqparams(), params=params, requires=['blobLen >= 1'], modifies=[],
                    raises=[('SequenceException', 'blobLen > self.SeqObj.len')], ensures=ens)
    CONTRACT[SP + 'show_linear' + which] = mk(True, False)
    CONTRACT[SP + 'show_linear' + which + '#show'] = mk(False, False)
    CONTRACT[SP + 'save_linear' + which] = mk(False, True)


_linear('FCR', 'win_fcr(self.SeqObj.seq, i, blobLen)')
_linear('Sigma', 'win_sigma(self.SeqObj.seq, i, blobLen)')
_linear('Hydropathy', 'win_hydro(self.SeqObj.seq, i, blobLen)')
