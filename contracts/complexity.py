"""Contracts: reduced alphabets (C12) and complexity vectors (C11)."""
from fractions import Fraction
from pyvc.speclib import ite, And, Or, Not, forall, length, isin, HAVE_Z3
from .common import AA20, is_aa
from . import tables as T

CX = 'localcider/backend/sequenceComplexity.py:SequenceComplexity.'
CONTRACT = {}
LOOPS = {}
SPEC = {}
SIZES = [2, 3, 4, 5, 6, 8, 10, 11, 12, 15, 18, 20]

# per-residue map of the CODE for each predefined size, extracted on every run by executing the real
# reduce_alphabet on the twenty one-letter sequences (prepare() below); {size: {residue: image}}
RED1 = {}
ALPHA = {}


def prepare(verifier):
    mod = verifier.sb.load('localcider.backend.sequenceComplexity')
    sc = mod.SequenceComplexity()
    RED1.clear()
    ALPHA.clear()
    for k in SIZES:
        RED1[k] = {}
        for a in AA20:
            try:
                s, alpha = sc.reduce_alphabet(a, k)
            except Exception as e:      # noqa
                s, alpha = '?', []
            RED1[k][a] = s
        try:
            ALPHA[k] = list(sc.reduce_alphabet(AA20, k)[1])
        except Exception:               # noqa
            ALPHA[k] = []


def red1(c, size):
    """image of residue c under the code's per-residue map for a predefined size (extracted table)"""
    tab = RED1[size]
    r = '?'
    for a in reversed(AA20):
        r = ite(c == a, tab[a], r)
    return r


def table_facts(verifier):
    """C12.a: the extracted per-residue maps against the documented partitions (finite facts)"""
    from pyvc.interp import Obligation
    import z3
    obs = []

    def ob(name, ok, note):
        obs.append(Obligation('C12.table.' + name, [], z3.BoolVal(bool(ok)), 'table', 'tables:reduce_alphabet', 0, [], (), note))
    for k in SIZES:
        tab = RED1[k]
        doc = [set(g) for g in T.ALPHABETS[k]]
        groups = {}
        for a, r in tab.items():
            groups.setdefault(r, set()).add(a)
        ob('size%d.single_letter_images' % k, all(len(r) == 1 and r in AA20 for r in tab.values()), 'every residue maps to one residue letter')
        ob('size%d.partition' % k, sorted(map(sorted, groups.values())) == sorted(map(sorted, doc)),
           'groups of the code %s == documented %s' % (sorted(''.join(sorted(g)) for g in groups.values()), sorted(T.ALPHABETS[k])))
        ob('size%d.group_count' % k, len(groups) == k, 'exactly %d groups' % k)
        ob('size%d.representative_is_member' % k, all(r in g for r, g in groups.items()), 'each group is represented by one of its members')
        ob('size%d.idempotent' % k, all(tab.get(tab[a]) == tab[a] for a in AA20), 'reducing twice changes nothing')
        ob('size%d.alphabet_lists_representatives' % k, sorted(ALPHA[k]) == sorted(groups.keys()) and len(set(ALPHA[k])) == len(ALPHA[k]),
           'returned alphabet %s == representatives %s' % (ALPHA[k], sorted(groups.keys())))
    return obs


EXTRA = {'C12': table_facts}


def mk_cx(it, case):
    from pyvc.values import Obj
    mod = it.sb.load('localcider.backend.sequenceComplexity')
    return Obj(mod.SequenceComplexity, 'self')


def aa_seq(it, case):
    import z3
    s = it.fresh_seq('sequence', 'str', 'char')
    j = z3.Int('j!v')
    c = z3.Select(s.arr, j)
    it.pc.append(z3.ForAll([j], z3.Implies(z3.And(j >= 0, j < s.n), z3.Or([c == ord(a) for a in AA20]))))
    return s


def user_alpha(it, case):
    """a total user alphabet: every residue mapped to a symbolic one-character string"""
    return {a: it.fresh('ua_' + a, 'char') for a in AA20}


def ua_valid(ua):
    acc = True
    for a in AA20:
        acc = And(acc, is_aa(ua[a]))
    return acc


def ua_map(c, ua):
    r = '?'
    for a in reversed(AA20):
        r = ite(c == a, ua[a], r)
    return r


SPEC.update(dict(TWENTY='RHKDESTNQCGPAILMFWYV', red1=red1, ua_valid=ua_valid, ua_map=ua_map, ALPHA=ALPHA, SIZES=SIZES))

CONTRACT[CX + 'reduce_alphabet'] = dict(
    self=mk_cx, params={'sequence': aa_seq, 'alphabetSize': ('const', 20), 'userAlphabet': (lambda it, case: {})},
    cases=[dict(params={'alphabetSize': ('const', k)}) for k in SIZES] + [dict(params={'alphabetSize': ('const', str(k))}) for k in (5, 20)],
    modifies=[], raises=[],
    ensures=['length(result[0]) == length(sequence)',
             'forall(lambda j: result[0][j] == red1(sequence[j], int(alphabetSize)), 0, length(sequence))',
             'sorted(result[1]) == sorted(ALPHA[int(alphabetSize)])'])
_LP = dict(index='k', types={'aa': 'list[char]'}, invariant=[
    'length(aa) == k', 'forall(lambda j: aa[j] == red1(sequence[j], int(alphabetSize)), 0, k)'])
LOOPS[CX + 'reduce_alphabet'] = {i: _LP for i in range(3, 3 + 11)}
# the de-duplicating loop that lists the images of a user alphabet: cut (not unrolled: 2^20 paths) with a membership invariant
LOOPS[CX + 'reduce_alphabet'][2] = dict(index='k', types={'alphabet': 'list[char]'}, invariant=[
    # the list holds only images, every image of the residues seen so far, and no image twice
    'forall(lambda x: exists(lambda a: And(a < k, alphabet[x] == ua_map(TWENTY[a], userAlphabet)), 0, 20), 0, length(alphabet))',
    'forall(lambda a: implies(a < k, exists(lambda x: alphabet[x] == ua_map(TWENTY[a], userAlphabet), 0, length(alphabet))), 0, 20)',
    'forall(lambda x: forall(lambda y: Not(alphabet[x] == alphabet[y]), 0, x), 0, length(alphabet))'])
LOOPS[CX + 'reduce_alphabet'][1] = dict(index='k', types={'aa': 'list[char]'}, invariant=[
    'length(aa) == k', 'forall(lambda j: aa[j] == ua_map(sequence[j], userAlphabet), 0, k)'])

CONTRACT[CX + 'reduce_alphabet#badsize'] = dict(
    self=mk_cx, params={'sequence': aa_seq, 'alphabetSize': 'int', 'userAlphabet': (lambda it, case: {})},
    cases=[dict(params={'alphabetSize': 'int'}), dict(params={'alphabetSize': ('const', 'x')}), dict(params={'alphabetSize': ('const', '7')})],
    requires=['Not(isin(alphabetSize, SIZES))'], modifies=[], raises=[('SequenceComplexityException', 'True')], ensures=[])

CONTRACT[CX + 'reduce_alphabet#user'] = dict(
    self=mk_cx, params={'sequence': aa_seq, 'alphabetSize': 'int', 'userAlphabet': user_alpha}, modifies=[],
    raises=[('SequenceComplexityException', 'Not(ua_valid(userAlphabet))')],
    ensures=['length(result[0]) == length(sequence)',
             'forall(lambda j: result[0][j] == ua_map(sequence[j], userAlphabet), 0, length(sequence))',
             'forall(lambda x: exists(lambda a: result[1][x] == ua_map(TWENTY[a], userAlphabet), 0, 20), 0, length(result[1]))',
             'forall(lambda a: exists(lambda x: result[1][x] == ua_map(TWENTY[a], userAlphabet), 0, length(result[1])), 0, 20)',
             'forall(lambda x: forall(lambda y: Not(result[1][x] == result[1][y]), 0, x), 0, length(result[1]))'])

for _k in ('reduce_alphabet', 'reduce_alphabet#badsize', 'reduce_alphabet#user'):
    CONTRACT[CX + _k]['requires'] = list(CONTRACT[CX + _k].get('requires', [])) + ['forall(lambda j: is_aa(sequence[j]), 0, length(sequence))']
SPEC['is_aa'] = is_aa

from .common import SEQ, mk_sequence
from .seqparams import mk_seqparams, SP as _SP
_KS = SEQ + ':Sequence.'
CONTRACT[_KS + 'get_reducedAlphabetSequence'] = dict(
    self=mk_sequence(), params={'alphabetSize': ('const', 20), 'userAlphabet': (lambda it, case: {})},
    cases=[dict(params={'alphabetSize': ('const', k)}) for k in (2, 11, 20)],
    requires=['forall(lambda j: is_aa(self.seq[j]), 0, self.len)'], modifies=[], raises=[],
    ensures=['length(result[0]) == self.len',
             'forall(lambda j: result[0][j] == red1(self.seq[j], int(alphabetSize)), 0, self.len)'])
CONTRACT[_SP + 'get_reduced_alphabet_sequence'] = dict(
    self=mk_seqparams(), params={'alphabetSize': ('const', 20), 'userAlphabet': (lambda it, case: {})},
    cases=[dict(params={'alphabetSize': ('const', k)}) for k in (2, 11, 20)],
    requires=['forall(lambda j: is_aa(self.SeqObj.seq[j]), 0, self.SeqObj.len)'], modifies=[], raises=[],
    ensures=['length(result[0]) == self.SeqObj.len',
             'forall(lambda j: result[0][j] == red1(self.SeqObj.seq[j], int(alphabetSize)), 0, self.SeqObj.len)'])
CONTRACT[CX + 'reduce_alphabet']['returns'] = lambda it, env: (it.fresh_seq('reduced', 'str', 'char'), list(ALPHA.get(int(env['alphabetSize']), [])))
CONTRACT[_KS + 'get_reducedAlphabetSequence']['returns'] = lambda it, env: (it.fresh_seq('reduced', 'str', 'char'), list(ALPHA.get(int(env['alphabetSize']), [])))

# ----------------------------------------------------------------------------- C11: complexity vectors
from pyvc.speclib import rsum, cnt, toreal, logb, fdiv, define_over, length as _length
from .common import SPEC as _CS


def plogp(p, A):
    """p * log_A(p), 0 for p = 0"""
    return ite(p > 0, lambda: p * logb(p, toreal(A)), Fraction(0))


@define_over('wf_spec', 2, ['int', 'int'], 'real')
def wf_spec(seq, alpha, start, w):
    """Shannon entropy (base = alphabet size) of the letter composition of the window seq[start:start+w]"""
    A = _length(alpha)
    return -rsum(lambda a: plogp(toreal(cnt(lambda j: seq[j] == alpha[a], start, start + w)) / toreal(w), A), 0, A)


@define_over('wf_partial', 2, ['int', 'int', 'int'], 'real')
def wf_partial(seq, alpha, start, w, upto):
    A = _length(alpha)
    return rsum(lambda a: plogp(toreal(cnt(lambda j: seq[j] == alpha[a], start, start + w)) / toreal(w), A), 0, upto)


def n_windows(N, w, s):
    """K = floor((N - w) / s) + 1"""
    return fdiv(N - w, s) + 1


SPEC.update(dict(plogp=plogp, wf_spec=wf_spec, wf_partial=wf_partial, n_windows=n_windows))

CONTRACT[CX + 'get_indexed_complexity_vector'] = dict(
    self=mk_cx, params={'complexity_vector': 'list[real]', 'seq_len': 'int'},
    requires=['length(complexity_vector) >= 1', 'length(complexity_vector) <= seq_len'],
    raises=[], modifies=[], returns='rows:int,real',
    ensures=['length(result[0]) == length(complexity_vector)',
             'result[0][0] >= 1', 'result[0][length(complexity_vector) - 1] <= seq_len',
             'forall(lambda i: result[0][i] < result[0][i + 1], 0, length(complexity_vector) - 1)',
             'seq_eq(result[1], complexity_vector)'])

CONTRACT[CX + 'CWF'] = dict(
    self=mk_cx, params={'sequence': 'str', 'alphabet': 'list[char]', 'windowSize': 'int', 'stepSize': 'int'},
    requires=['windowSize >= 1', 'windowSize <= length(sequence)', 'stepSize >= 1', 'length(alphabet) >= 2'],
    raises=[], modifies=[], returns='list[real]',
    ensures=['length(result) == n_windows(length(sequence), windowSize, stepSize)',
             'forall(lambda k: result[k] == wf_spec(sequence, alphabet, k * stepSize, windowSize), 0, length(result))'])
LOOPS[CX + 'CWF'] = {
    0: dict(types={'CWF_array': 'list[real]', 'CWF': 'real'}, invariant=[
        'step == stepSize * length(CWF_array)', 'step >= 0',
        'implies(length(CWF_array) >= 1, stepSize * (length(CWF_array) - 1) <= length(sequence) - windowSize)',
        'forall(lambda k: CWF_array[k] == wf_spec(sequence, alphabet, k * stepSize, windowSize), 0, length(CWF_array))'],
        variant='(length(sequence) - windowSize - step + 1,)'),
    1: dict(index='a', types={'CWF': 'real'}, invariant=['CWF == wf_partial(sequence, alphabet, step, windowSize, a)']),
}

CONTRACT[CX + 'LZW'] = dict(
    self=mk_cx, params={'sequence': 'str', 'alphabet': 'list[char]', 'windowSize': 'int', 'stepSize': 'int'},
    requires=['windowSize >= 1', 'windowSize <= length(sequence)', 'stepSize >= 1'],
    raises=[], modifies=[], returns='list[real]',
    ensures=['length(result) == n_windows(length(sequence), windowSize, stepSize)',
             'forall(lambda k: And(0 <= result[k], result[k] <= 1), 0, length(result))'])
LOOPS[CX + 'LZW'] = {
    0: dict(types={'LZW_array': 'list[real]', 'LZW': 'real', 'w': 'str', 'ngrams': 'aset', 'n': 'int'}, invariant=[
        'step == stepSize * length(LZW_array)', 'step >= 0',
        'implies(length(LZW_array) >= 1, stepSize * (length(LZW_array) - 1) <= length(sequence) - windowSize)',
        'forall(lambda k: And(0 <= LZW_array[k], LZW_array[k] <= 1), 0, length(LZW_array))'],
        variant='(length(sequence) - windowSize - step + 1,)'),
    1: dict(index='i', types={'ngrams': 'aset', 'w': 'str'}, invariant=['length(ngrams) <= i', 'length(ngrams) >= 0']),
}

CONTRACT[CX + 'LC'] = dict(
    self=mk_cx, params={'sequence': 'str', 'alphabet': 'list[char]', 'windowSize': 'int', 'stepSize': 'int', 'wordSize': ('const', 3)},
    cases=[dict(params={'wordSize': ('const', k)}) for k in (1, 2, 3, 4, 5, 6)],
    requires=['windowSize >= 1', 'windowSize <= length(sequence)', 'stepSize >= 1', 'length(alphabet) >= 2'],
    raises=[], modifies=[], returns='list[real]',
    ensures=['length(result) == n_windows(length(sequence), windowSize, stepSize)',
             # v <= number of word positions; that v <= |alphabet|^word (hence LC <= 1) is Lean lemma card_words
             'forall(lambda k: And(0 <= result[k], result[k] * minv(toreal(length(alphabet)) ** wordSize, toreal(windowSize - 1 + wordSize)) <= maxv(windowSize - wordSize, 0)), 0, length(result))'])
LOOPS[CX + 'LC'] = {
    0: dict(types={'LC_array': 'list[real]', 'LC': 'real', 'ngram': 'str', 'ngrams': 'aset', 'i': 'int', 'v': 'int', 'vmax': 'real', 'position': 'int'}, invariant=[
        'step == stepSize * length(LC_array)', 'step >= 0',
        'implies(length(LC_array) >= 1, stepSize * (length(LC_array) - 1) <= length(sequence) - windowSize)',
        'forall(lambda k: And(0 <= LC_array[k], LC_array[k] * minv(toreal(length(alphabet)) ** wordSize, toreal(windowSize - 1 + wordSize)) <= maxv(windowSize - wordSize, 0)), 0, length(LC_array))'],
        variant='(length(sequence) - windowSize - step + 1,)'),
    1: dict(index='i', types={'ngrams': 'aset', 'ngram': 'str', 'position': 'int'}, invariant=['length(ngrams) <= i', 'length(ngrams) >= 0']),
}

# ---- wrappers: reduce -> complexity -> indexed vector
_POS = ['length(result[0]) == n_windows(length(sequence), windowSize, stepSize)', 'result[0][0] >= 1',
        'result[0][length(result[0]) - 1] <= length(sequence)',
        'forall(lambda i: result[0][i] < result[0][i + 1], 0, length(result[0]) - 1)',
        'length(result[1]) == n_windows(length(sequence), windowSize, stepSize)']
_RED = ['length(local("reduced_sequence")) == length(sequence)',
        'forall(lambda j: local("reduced_sequence")[j] == red1(sequence[j], int(alphabetSize)), 0, length(sequence))']
_WREQ = ['windowSize >= 1', 'windowSize <= length(sequence)', 'stepSize >= 1', 'forall(lambda j: is_aa(sequence[j]), 0, length(sequence))']
_WPAR = {'sequence': aa_seq, 'alphabetSize': ('const', 20), 'userAlphabet': (lambda it, case: {}), 'windowSize': 'int', 'stepSize': 'int'}
_WCASES = [dict(params={'alphabetSize': ('const', k)}) for k in (2, 5, 20)]
_GH = {'reduced_sequence': 'str', 'alphabet': 'list[char]'}

CONTRACT[CX + 'get_WF_complexity'] = dict(
    self=mk_cx, params=dict(_WPAR), cases=_WCASES, requires=_WREQ, raises=[], modifies=[], returns='rows:int,real', ghost_locals=_GH,
    ensures=_POS + _RED + ['forall(lambda k: result[1][k] == wf_spec(local("reduced_sequence"), local("alphabet"), k * stepSize, windowSize), 0, length(result[1]))'])
CONTRACT[CX + 'get_LZW_complexity'] = dict(
    self=mk_cx, params=dict(_WPAR), cases=_WCASES, requires=_WREQ, raises=[], modifies=[], returns='rows:int,real', ghost_locals=_GH,
    ensures=_POS + ['forall(lambda k: And(0 <= result[1][k], result[1][k] <= 1), 0, length(result[1]))'])
CONTRACT[CX + 'get_LC_complexity'] = dict(
    self=mk_cx, params=dict(_WPAR, wordSize=('const', 3)), cases=[dict(params={'alphabetSize': ('const', k), 'wordSize': ('const', ws)}) for k, ws in ((2, 3), (20, 1), (5, 6))],
    requires=_WREQ, raises=[], modifies=[], returns='rows:int,real', ghost_locals=_GH,
    ensures=_POS + ['forall(lambda k: 0 <= result[1][k], 0, length(result[1]))'])

# Sequence level: window check, then the complexity object
_SREQ = ['windowSize >= 1', 'stepSize >= 1', 'forall(lambda j: is_aa(self.seq[j]), 0, self.len)']
_SPAR = {'alphabetSize': ('const', 20), 'userAlphabet': (lambda it, case: {}), 'windowSize': 'int', 'stepSize': 'int'}
_SPOS = [e.replace('length(sequence)', 'self.len') for e in _POS]
for _nm, _extra in (('WF', []), ('LZW', ['forall(lambda k: And(0 <= result[1][k], result[1][k] <= 1), 0, length(result[1]))']),
                    ('LC', ['forall(lambda k: 0 <= result[1][k], 0, length(result[1]))'])):
    CONTRACT[_KS + 'get_linear_%s_complexity' % _nm] = dict(
        self=mk_sequence(), params=dict(_SPAR, **({'wordSize': ('const', 3)} if _nm == 'LC' else {})), cases=[dict(params={'alphabetSize': ('const', k)}) for k in (2, 20)],
        requires=_SREQ, raises=[('SequenceException', 'windowSize > self.len')], modifies=[], returns='rows:int,real', ensures=_SPOS + _extra)

# API level: type dispatch (case-insensitive), unknown types rejected
_APAR = {'complexityType': ('const', 'WF'), 'alphabetSize': ('const', 20), 'userAlphabet': (lambda it, case: {}), 'blobLen': 'int', 'stepSize': 'int', 'wordSize': ('const', 3)}
_APOS = [e.replace('length(sequence)', 'self.SeqObj.len').replace('windowSize', 'blobLen') for e in _POS]
CONTRACT[_SP + 'get_linear_complexity'] = dict(
    self=mk_seqparams(), params=dict(_APAR),
    cases=[dict(params={'complexityType': ('const', t), 'alphabetSize': ('const', k)}) for t, k in (('WF', 20), ('wf', 2), ('LC', 20), ('lc', 2), ('LZW', 2), ('Lzw', 20))],
    requires=['blobLen >= 1', 'stepSize >= 1', 'forall(lambda j: is_aa(self.SeqObj.seq[j]), 0, self.SeqObj.len)'],
    raises=[('SequenceException', 'blobLen > self.SeqObj.len')], modifies=[], returns='rows:int,real', ensures=_APOS)
CONTRACT[_SP + 'get_linear_complexity#badtype'] = dict(
    self=mk_seqparams(), params=dict(_APAR),
    cases=[dict(params={'complexityType': ('const', t)}) for t in ('XX', 'wf2', '', 'RHP', 5, None)],
    requires=['blobLen >= 1', 'stepSize >= 1'], raises=[('SequenceComplexityException', 'True')], modifies=[], ensures=[])
