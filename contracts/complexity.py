"""Contracts: reduced alphabets (C12) and complexity vectors (C11)."""
from fractions import Fraction
from pyvc.speclib import ite, And, Or, Not, forall, length, isin, HAVE_Z3
from .common import AA20, is_aa
from . import tables as T

CX = 'localcider/backend/sequenceComplexity.py:SequenceComplexity.'
CONTRACT = {}
LOOPS = {}
SPEC = {}
SIZES = [2, 3, 4, 5, 6, 8, 10, 11, 12, 15, 18, 20]

# per-residue map of the CODE for each predefined size, extracted on every run by executing the real
# reduce_alphabet on the twenty one-letter sequences (prepare() below); {size: {residue: image}}
RED1 = {}
ALPHA = {}


def prepare(verifier):
    mod = verifier.sb.load('localcider.backend.sequenceComplexity')
    sc = mod.SequenceComplexity()
    RED1.clear()
    ALPHA.clear()
    for k in SIZES:
        RED1[k] = {}
        for a in AA20:
            try:
                s, alpha = sc.reduce_alphabet(a, k)
            except Exception as e:      # noqa
                s, alpha = '?', []
            RED1[k][a] = s
        try:
            ALPHA[k] = list(sc.reduce_alphabet(AA20, k)[1])
        except Exception:               # noqa
            ALPHA[k] = []


def red1(c, size):
    """image of residue c under the code's per-residue map for a predefined size (extracted table)"""
    tab = RED1[size]
    r = '?'
    for a in reversed(AA20):
        r = ite(c == a, tab[a], r)
    return r


def table_facts(verifier):
    """C12.a: the extracted per-residue maps against the documented partitions (finite facts)"""
    from pyvc.interp import Obligation
    import z3
    obs = []

    def ob(name, ok, note):
        obs.append(Obligation('C12.table.' + name, [], z3.BoolVal(bool(ok)), 'table', 'tables:reduce_alphabet', 0, [], (), note))
    for k in SIZES:
        tab = RED1[k]
        doc = [set(g) for g in T.ALPHABETS[k]]
        groups = {}
        for a, r in tab.items():
            groups.setdefault(r, set()).add(a)
        ob('size%d.single_letter_images' % k, all(len(r) == 1 and r in AA20 for r in tab.values()), 'every residue maps to one residue letter')
        ob('size%d.partition' % k, sorted(map(sorted, groups.values())) == sorted(map(sorted, doc)),
           'groups of the code %s == documented %s' % (sorted(''.join(sorted(g)) for g in groups.values()), sorted(T.ALPHABETS[k])))
        ob('size%d.group_count' % k, len(groups) == k, 'exactly %d groups' % k)
        ob('size%d.representative_is_member' % k, all(r in g for r, g in groups.items()), 'each group is represented by one of its members')
        ob('size%d.idempotent' % k, all(tab.get(tab[a]) == tab[a] for a in AA20), 'reducing twice changes nothing')
        ob('size%d.alphabet_lists_representatives' % k, sorted(ALPHA[k]) == sorted(groups.keys()) and len(set(ALPHA[k])) == len(ALPHA[k]),
           'returned alphabet %s == representatives %s' % (ALPHA[k], sorted(groups.keys())))
    return obs


EXTRA = {'C12': table_facts}


def mk_cx(it, case):
    from pyvc.values import Obj
    mod = it.sb.load('localcider.backend.sequenceComplexity')
    return Obj(mod.SequenceComplexity, 'self')


def aa_seq(it, case):
    import z3
    s = it.fresh_seq('sequence', 'str', 'char')
    j = z3.Int('j!v')
    c = z3.Select(s.arr, j)
    it.pc.append(z3.ForAll([j], z3.Implies(z3.And(j >= 0, j < s.n), z3.Or([c == ord(a) for a in AA20]))))
    return s


def user_alpha(it, case):
    """a total user alphabet: every residue mapped to a symbolic one-character string"""
    return {a: it.fresh('ua_' + a, 'char') for a in AA20}


def ua_valid(ua):
    acc = True
    for a in AA20:
        acc = And(acc, is_aa(ua[a]))
    return acc


def ua_map(c, ua):
    r = '?'
    for a in reversed(AA20):
        r = ite(c == a, ua[a], r)
    return r


SPEC.update(dict(TWENTY='RHKDESTNQCGPAILMFWYV', red1=red1, ua_valid=ua_valid, ua_map=ua_map, ALPHA=ALPHA, SIZES=SIZES))

CONTRACT[CX + 'reduce_alphabet'] = dict(
    self=mk_cx, params={'sequence': aa_seq, 'alphabetSize': ('const', 20), 'userAlphabet': (lambda it, case: {})},
    cases=[dict(params={'alphabetSize': ('const', k)}) for k in SIZES] + [dict(params={'alphabetSize': ('const', str(k))}) for k in (5, 20)],
    modifies=[], raises=[],
    ensures=['length(result[0]) == length(sequence)',
             'forall(lambda j: result[0][j] == red1(sequence[j], int(alphabetSize)), 0, length(sequence))',
             'sorted(result[1]) == sorted(ALPHA[int(alphabetSize)])'])
_LP = dict(index='k', types={'aa': 'list[char]'}, invariant=[
    'length(aa) == k', 'forall(lambda j: aa[j] == red1(sequence[j], int(alphabetSize)), 0, k)'])
LOOPS[CX + 'reduce_alphabet'] = {i: _LP for i in range(3, 3 + 11)}
# the de-duplicating loop that lists the images of a user alphabet: cut (not unrolled: 2^20 paths) with a membership invariant
LOOPS[CX + 'reduce_alphabet'][2] = dict(index='k', types={'alphabet': 'list[char]'}, invariant=[
    'forall(lambda x: exists(lambda a: alphabet[x] == ua_map(TWENTY[a], userAlphabet), 0, 20), 0, length(alphabet))'])
LOOPS[CX + 'reduce_alphabet'][1] = dict(index='k', types={'aa': 'list[char]'}, invariant=[
    'length(aa) == k', 'forall(lambda j: aa[j] == ua_map(sequence[j], userAlphabet), 0, k)'])

CONTRACT[CX + 'reduce_alphabet#badsize'] = dict(
    self=mk_cx, params={'sequence': aa_seq, 'alphabetSize': 'int', 'userAlphabet': (lambda it, case: {})},
    cases=[dict(params={'alphabetSize': 'int'}), dict(params={'alphabetSize': ('const', 'x')}), dict(params={'alphabetSize': ('const', '7')})],
    requires=['Not(isin(alphabetSize, SIZES))'], modifies=[], raises=[('SequenceComplexityException', 'True')], ensures=[])

CONTRACT[CX + 'reduce_alphabet#user'] = dict(
    self=mk_cx, params={'sequence': aa_seq, 'alphabetSize': 'int', 'userAlphabet': user_alpha}, modifies=[],
    raises=[('SequenceComplexityException', 'Not(ua_valid(userAlphabet))')],
    ensures=['length(result[0]) == length(sequence)',
             'forall(lambda j: result[0][j] == ua_map(sequence[j], userAlphabet), 0, length(sequence))'])

for _k in ('reduce_alphabet', 'reduce_alphabet#badsize', 'reduce_alphabet#user'):
    CONTRACT[CX + _k]['requires'] = list(CONTRACT[CX + _k].get('requires', [])) + ['forall(lambda j: is_aa(sequence[j]), 0, length(sequence))']
SPEC['is_aa'] = is_aa

from .common import SEQ, mk_sequence
from .seqparams import mk_seqparams, SP as _SP
_KS = SEQ + ':Sequence.'
CONTRACT[_KS + 'get_reducedAlphabetSequence'] = dict(
    self=mk_sequence(), params={'alphabetSize': ('const', 20), 'userAlphabet': (lambda it, case: {})},
    cases=[dict(params={'alphabetSize': ('const', k)}) for k in (2, 11, 20)],
    requires=['forall(lambda j: is_aa(self.seq[j]), 0, self.len)'], modifies=[], raises=[],
    ensures=['length(result[0]) == self.len',
             'forall(lambda j: result[0][j] == red1(self.seq[j], int(alphabetSize)), 0, self.len)'])
CONTRACT[_SP + 'get_reduced_alphabet_sequence'] = dict(
    self=mk_seqparams(), params={'alphabetSize': ('const', 20), 'userAlphabet': (lambda it, case: {})},
    cases=[dict(params={'alphabetSize': ('const', k)}) for k in (2, 11, 20)],
    requires=['forall(lambda j: is_aa(self.SeqObj.seq[j]), 0, self.SeqObj.len)'], modifies=[], raises=[],
    ensures=['length(result[0]) == self.SeqObj.len',
             'forall(lambda j: result[0][j] == red1(self.SeqObj.seq[j], int(alphabetSize)), 0, self.SeqObj.len)'])
CONTRACT[CX + 'reduce_alphabet']['returns'] = lambda it, env: (it.fresh_seq('reduced', 'str', 'char'), list(ALPHA.get(int(env['alphabetSize']), [])))
CONTRACT[_KS + 'get_reducedAlphabetSequence']['returns'] = lambda it, env: (it.fresh_seq('reduced', 'str', 'char'), list(ALPHA.get(int(env['alphabetSize']), [])))
