"""Shared spec functions (written from the property statements) and the builder of a
symbolic `Sequence` receiver that satisfies the class invariant INV.

Everything here is dual mode (pyvc.speclib): the same definitions are evaluated on
exact rationals by the native bounded checks and on z3 terms by the VC generator.
"""
from fractions import Fraction
from pyvc.speclib import memo, define, define_over, as_seq
from pyvc.speclib import (isum, rsum, cnt, ite, implies, iff, And, Or, Not, forall, exists, length, isin, sqrt, mkseq, mkset,
                          pow10, logb, absv, toreal, fdiv, maxv, minv, HAVE_Z3)

AA20 = 'ACDEFGHIKLMNPQRSTVWY'
SEQ = 'localcider/backend/sequence.py'


# ----------------------------------------------------------------------------- statement-level definitions
POSC = 'KR+'      # positive: K, R (and the reduced-alphabet symbol '+' used internally by the delta-max search)
NEGC = 'DE-'      # negative: D, E (and '-')


def charge(c):
    """q = +1 for K/R, -1 for D/E, 0 otherwise (C02, C07); on the internal reduced alphabet '+' is +1 and '-' is -1"""
    return ite(isin(c, POSC), 1, ite(isin(c, NEGC), -1, 0))


@memo
def npos(s, lo, hi):
    return cnt(lambda j: isin(s[j], POSC), lo, hi)


@memo
def nneg(s, lo, hi):
    return cnt(lambda j: isin(s[j], NEGC), lo, hi)


@memo
def nneut(s, lo, hi):
    return cnt(lambda j: Not(isin(s[j], POSC + NEGC)), lo, hi)


def sigma_of(p, n, L):
    """sigma = (f+ - f-)^2 / (f+ + f-), 0 when uncharged; p, n counts in a stretch of length L"""
    fp = toreal(p) / toreal(L)
    fn = toreal(n) / toreal(L)
    return ite(p + n == 0, Fraction(0), lambda: (fp - fn) * (fp - fn) / (fp + fn))


@memo
def sigma_seq(s, N):
    return sigma_of(npos(s, 0, N), nneg(s, 0, N), N)


@memo
def blob_sigma(s, i, b):
    return sigma_of(npos(s, i, i + b), nneg(s, i, i + b), b)


@memo
def dform_upto(s, N, b, k):
    """sum over the first k blobs of (sigma_seq - sigma_blob)^2 / nblobs"""
    nb = N - b + 1
    return rsum(lambda i: (sigma_seq(s, N) - blob_sigma(s, i, b)) * (sigma_seq(s, N) - blob_sigma(s, i, b)) / toreal(nb), 0, k)


def dform_term(s, N, b, i):
    """the summand of blob i"""
    return (sigma_seq(s, N) - blob_sigma(s, i, b)) * (sigma_seq(s, N) - blob_sigma(s, i, b)) / toreal(N - b + 1)


def dform_rng(s, N, b, lo, hi):
    """the same summand as dform_upto over the blobs lo..hi-1 (dform_upto(s, N, b, k) is dform_rng(s, N, b, 0, k))"""
    nb = N - b + 1
    return rsum(lambda i: (sigma_seq(s, N) - blob_sigma(s, i, b)) * (sigma_seq(s, N) - blob_sigma(s, i, b)) / toreal(nb), lo, hi)


@memo
def dform(s, N, b):
    """mean squared deviation of the blob sigmas (blob size b) from the sequence sigma; 0 if b > N"""
    return ite(N - b + 1 <= 0, Fraction(0), lambda: dform_upto(s, N, b, N - b + 1))


@memo
def delta_spec(s, N):
    return (dform(s, N, 5) + dform(s, N, 6)) / 2


def is_aa(c):
    return isin(c, AA20)


def is_res(c):
    """a residue letter or one of the reduced-alphabet symbols + - 0"""
    return isin(c, AA20 + '+-0')


def valid_seq(s, N):
    return forall(lambda j: is_aa(s[j]), 0, N)


def pattern_of(s):
    """the charge pattern of a sequence (ndarray of +1/-1/0)"""
    return mkseq(lambda j: charge(s[j]), length(s), 'int')


def seq_inv(o):
    """class invariant INV of backend Sequence objects (the part every analysis relies on)"""
    f = o.fields if hasattr(o, 'fields') else o
    s, n, cp = f['seq'], f['len'], f['chargePattern']
    return And(n == length(s), n >= 1, forall(lambda j: is_res(s[j]), 0, n), length(cp) == n,
               forall(lambda j: cp[j] == charge(s[j]), 0, n))


SPEC = dict(is_res=is_res, pattern_of=pattern_of, seq_inv=seq_inv,
            charge=charge, npos=npos, nneg=nneg, nneut=nneut, sigma_of=sigma_of, sigma_seq=sigma_seq,
            blob_sigma=blob_sigma, dform_upto=dform_upto, dform=dform, delta_spec=delta_spec, is_aa=is_aa,
            valid_seq=valid_seq, AA20=AA20)


# ----------------------------------------------------------------------------- symbolic receiver
def mk_sequence(alphabet='aa', dmax='any', prefix='self', nmin=1, sdm='opaque'):
    """builder of a symbolic Sequence object satisfying INV.
       alphabet: 'aa' (20 letters) | 'reduced' ('+','-','0' allowed too) | 'any'
       dmax:     'unset' (-1) | 'any' (symbolic real)"""
    def build(it, case):
        import z3
        from pyvc.values import Obj, SSeq, Sym, SChar, Opaque
        from pyvc import ops
        from pyvc.ops import LAM
        mod = it.sb.load('localcider.backend.sequence')
        o = Obj(mod.Sequence, prefix)
        seq = it.fresh_seq(prefix + '.seq', 'str', 'char')
        it.assume(seq.n >= nmin)
        j = z3.Int('j!inv')
        c = z3.Select(seq.arr, j)
        if alphabet == 'aa':
            it.pc.append(z3.ForAll([j], z3.Implies(z3.And(j >= 0, j < seq.n), z3.Or([c == ord(a) for a in AA20]))))
        elif alphabet == 'reduced':
            it.pc.append(z3.ForAll([j], z3.Implies(z3.And(j >= 0, j < seq.n), z3.Or([c == ord(a) for a in AA20 + '+-0']))))
        o.fields['seq'] = seq
        o.fields['len'] = Sym(seq.n, 'int')
        jj = z3.Int('j!cp')
        cc = z3.Select(seq.arr, jj)
        body = z3.If(z3.Or(cc == ord('K'), cc == ord('R'), cc == ord('+')), z3.IntVal(1),
                     z3.If(z3.Or(cc == ord('D'), cc == ord('E'), cc == ord('-')), z3.IntVal(-1), z3.IntVal(0)))
        o.fields['chargePattern'] = SSeq(LAM(jj, body), 0, seq.n, 'nd', 'int')
        if dmax == 'unset':
            o.fields['dmax'] = -1
        else:
            o.fields['dmax'] = it.fresh(prefix + '.dmax', 'real')
        if sdm == 'none':
            o.fields['seqDeltaMax'] = None
        elif sdm == 'str':
            o.fields['seqDeltaMax'] = it.fresh_seq(prefix + '.seqDeltaMax', 'str', 'char')
        else:
            o.fields['seqDeltaMax'] = case.get('seqDeltaMax', Opaque('seqDeltaMax'))
        o.fields['phosphosites'] = Opaque('phosphosites')
        o.fields['aminoAcidColorMap'] = Opaque('palette')
        o.fields['ComplexityObject'] = Obj(mod.SequenceComplexity, 'cx')
        return o
    build.inv = 'seq_inv(self)'
    return build


# ----------------------------------------------------------------------------- C07: sequence charge decoration
def scd_inner(s, m, upto):
    """sum over 1 <= n < upto of q_m q_n sqrt(m - n)   (1-based residue numbers)"""
    return rsum(lambda n: toreal(charge(s[m - 1])) * toreal(charge(s[n - 1])) * sqrt(toreal(m - n)), 1, upto)


def scd_outer(s, upto):
    """sum over 2 <= m < upto of the pairs (m, n<m)"""
    return rsum(lambda m: scd_inner(s, m, m), 2, upto)


def scd_spec(s, N):
    """(1/N) * sum over pairs m > n of q_m q_n sqrt(m-n)"""
    return scd_outer(s, N + 1) / toreal(N)


# ----------------------------------------------------------------------------- C08: diagram-of-states region
def region_spec(p, n, N):
    fcr = toreal(p + n) / toreal(N)
    ncpr = toreal(p - n) / toreal(N)
    return ite(fcr < Fraction(1, 4), 1,
               ite(fcr <= Fraction(7, 20), 2,
                   ite(absv(ncpr) < Fraction(7, 20), 3,
                       ite(p > n, 5, 4))))


# ----------------------------------------------------------------------------- C09: titration
from contracts.tables import PKA as _PKA


def pka(c):
    """EMBOSS pKa of a titratable residue (0 for the others; never used for them)"""
    r = Fraction(0)
    for k in 'CYHEDKR':
        r = ite(c == k, _PKA[k], r)
    return r


def hh_term(c, pH, negnum):
    """Henderson-Hasselbalch contribution of residue c: positive for K,R,H; negnum/(...) for E,D,Y,C"""
    pos = ite(isin(c, 'KRH'), lambda: 1 / (1 + pow10(pH - pka(c))), Fraction(0))
    neg = ite(isin(c, 'EDYC'), lambda: negnum / (1 + pow10(pka(c) - pH)), Fraction(0))
    return pos + neg


def hh_sum(s, pH, negnum, lo, hi):
    return rsum(lambda j: hh_term(s[j], pH, negnum), lo, hi)


def n_titratable(s, lo, hi):
    return cnt(lambda j: isin(s[j], 'KRHEDYC'), lo, hi)


def n_pro(s, lo, hi):
    return cnt(lambda j: s[j] == 'P', lo, hi)


SPEC.update(dict(scd_inner=scd_inner, scd_outer=scd_outer, scd_spec=scd_spec, region_spec=region_spec, pka=pka, hh_term=hh_term,
                 hh_sum=hh_sum, n_titratable=n_titratable, n_pro=n_pro))


# ----------------------------------------------------------------------------- C04: per-residue tables (published values, tables.py)
from contracts import tables as _T


def table_fn(tab, default=0):
    """c -> published value of residue c (ite chain over the 20 letters)"""
    def f(c):
        r = Fraction(default)
        for k in reversed(AA20):
            r = ite(c == k, tab[k], r)
        return r
    return f


kd_shifted = table_fn(_T.KD_SHIFTED)
kd_uversky = table_fn(_T.KD_UVERSKY)
ww = table_fn(_T.WW)
mw = table_fn(_T.MW)
ppii = {m: table_fn(t) for m, t in _T.PPII.items()}


def ppii_of(mode):
    return ppii[mode]


def res_sum(f, s, lo, hi):
    """sum over residues lo <= j < hi of the published per-residue value f"""
    return rsum(lambda j: f(s[j]), lo, hi)


def count_of(chars, s, lo, hi):
    return cnt(lambda j: isin(s[j], chars), lo, hi)


def dict_all(d, f):
    """f(key, value) for every entry of a dictionary with concrete keys"""
    acc = True
    for k in d:
        acc = And(acc, f(k, d[k]))
    return acc


SPEC.update(dict(T_kd_shifted=kd_shifted, T_kd_uversky=kd_uversky, T_ww=ww, T_mw=mw, T_ppii=ppii_of, res_sum=res_sum, count_of=count_of,
                 dict_all=dict_all, DISORDER=_T.DISORDER_PROMOTING))


# ----------------------------------------------------------------------------- C10: window statistics
def win_ncpr(s, i, w):
    return toreal(npos(s, i, i + w) - nneg(s, i, i + w)) / toreal(w)


def win_fcr(s, i, w):
    return toreal(npos(s, i, i + w) + nneg(s, i, i + w)) / toreal(w)


def win_sigma(s, i, w):
    return sigma_of(npos(s, i, i + w), nneg(s, i, i + w), w)


def win_hydro(s, i, w):
    return res_sum(kd_uversky, s, i, i + w) / toreal(w)


def win_density(s, grp, i, w):
    return toreal(cnt(lambda j: isin(s[j], grp), i, i + w)) / toreal(w)


def profile_ok(row, N, w, stat):
    """row has one column per residue; entry i + floor((w-1)/2) is stat(i) for 0 <= i <= N-w, the flanks are 0"""
    fs = fdiv(w - 1, 2)
    return And(length(row) == N,
               forall(lambda j: row[j] == ite(And(j >= fs, j < fs + (N - w + 1)), lambda: stat(j - fs), Fraction(0)), 0, N))


def positions_ok(row, N):
    return And(length(row) == N, forall(lambda j: row[j] == j + 1, 0, N))


SPEC.update(dict(win_ncpr=win_ncpr, win_fcr=win_fcr, win_sigma=win_sigma, win_hydro=win_hydro, win_density=win_density,
                 profile_ok=profile_ok, positions_ok=positions_ok))


# ----------------------------------------------------------------------------- groups (C06, C10)
def upper_char(c):
    """upper-casing of one character (ASCII exact; trusted beyond ASCII)"""
    if HAVE_Z3:
        from pyvc.values import SChar
        from pyvc.models import upper_code
        import z3 as _z3
        if isinstance(c, SChar):
            return SChar(_z3.simplify(upper_code(c.e)))
    return c.upper()


def in_group(c, grp):
    """c is (after upper-casing of the group's members) a member of the group given as a list/sequence of letters"""
    if isinstance(grp, (list, tuple, str, set, frozenset)) and not HAVE_Z3:
        return c in set(x.upper() for x in grp)
    if isinstance(grp, (list, tuple, str, set, frozenset)):
        return Or(*[c == upper_char(x) for x in grp]) if len(grp) else False
    return exists(lambda k: upper_char(grp[k]) == c, 0, length(grp))


def win_group_density(s, grp, i, w):
    return rsum(lambda j: ite(in_group(s[j], grp), Fraction(1), Fraction(0)), i, i + w) / toreal(w)


def win_set_density(s, grpset, i, w):
    # same summand as win_group_density once the set is { c | in_group(c, grp) }
    return rsum(lambda j: ite(isin(s[j], grpset), Fraction(1), Fraction(0)), i, i + w) / toreal(w)


def group_valid(grp):
    if isinstance(grp, (list, tuple, str)):
        return And(*[is_aa(upper_char(x)) for x in grp]) if len(grp) else True
    return forall(lambda k: is_aa(upper_char(grp[k])), 0, length(grp))


def groups_valid(grps):
    acc = True
    for g in grps:
        acc = And(acc, group_valid(g))
    return acc


STD_GROUPS = [['E', 'D'], ['R', 'K'], ['R', 'K', 'E', 'D'], ['Q', 'N', 'S', 'T', 'G', 'H', 'C'], ['A', 'L', 'M', 'I', 'V'], ['F', 'Y', 'W'], ['P']]


def rows_ok(rows, groups, N, w, s):
    """one value row per group, in order, each the density profile of that group"""
    if len(groups) == 1 and not isinstance(rows, tuple):
        rows = [rows]
    acc = len(rows) == len(groups)
    if not acc:
        return False
    for row, g in zip(rows, groups):
        acc = And(acc, profile_ok(row, N, w, lambda i, g=g: win_group_density(s, g, i, w)))
    return acc


SPEC.update(dict(upper_char=upper_char, in_group=in_group, win_group_density=win_group_density, win_set_density=win_set_density,
                 group_valid=group_valid, groups_valid=groups_valid, STD_GROUPS=STD_GROUPS, rows_ok=rows_ok))


def charge_norm(s, N, pH):
    """mean charge per titratable residue at pH (0 when nothing titrates)"""
    t = n_titratable(s, 0, N)
    return ite(t == 0, Fraction(0), lambda: hh_sum(s, pH, -1, 0, N) / toreal(t))


SPEC.update(dict(charge_norm=charge_norm))


# ----------------------------------------------------------------------------- C13: normalisation of sequence strings
def is_space(c):
    if HAVE_Z3:
        from pyvc.values import SChar
        from pyvc.models import isspace_code
        from pyvc import ops as _ops
        if isinstance(c, SChar):
            return _ops.mk(isspace_code(c.e), 'bool')
    return c.isspace()


def n_aa(u, lo, hi):
    return cnt(lambda j: is_aa(u[j]), lo, hi)


def filtered_ok(r, u, k):
    """r is the word of the amino-acid letters among u[0:k], in order:
       |r| = #letters, and the letter at position j of u sits at position #letters-before-j of r"""
    return And(length(r) == n_aa(u, 0, k),
               forall(lambda j: implies(is_aa(u[j]), r[n_aa(u, 0, j)] == u[j]), 0, k))


@memo
def upper_seq(s):
    return mkseq(lambda j: upper_char(s[j]), length(s), 'char')


SPEC.update(dict(dform_rng=dform_rng, dform_term=dform_term, is_space=is_space, n_aa=n_aa, filtered_ok=filtered_ok, upper_seq=upper_seq))

DEFAULT_PALETTE = {'A': 'black', 'C': 'black', 'D': 'red', 'E': 'red', 'F': 'orange', 'G': 'green', 'H': 'green', 'I': 'black',
                   'K': 'blue', 'L': 'black', 'M': 'black', 'N': 'green', 'P': 'fuchsia', 'Q': 'green', 'R': 'blue', 'S': 'green',
                   'T': 'green', 'V': 'black', 'W': 'orange', 'Y': 'orange'}


def palette_is_default(p):
    return isinstance(p, dict) and p == DEFAULT_PALETTE


SPEC.update(dict(DEFAULT_PALETTE=DEFAULT_PALETTE, palette_is_default=palette_is_default))


# ----------------------------------------------------------------------------- C14: sequence-file lines
def keep_file(c):
    """characters a sequence line contributes: residue letters and the stop symbol"""
    return Or(is_aa(c), c == '*')


def skip_file(c):
    """characters of a sequence line that are silently dropped: the space and digits (position numbers)"""
    return Or(c == ' ', isin(c, '0123456789'))


def n_keep(u, lo, hi):
    return cnt(lambda j: keep_file(u[j]), lo, hi)


def kept_ok(r, u, k):
    return And(length(r) == n_keep(u, 0, k),
               forall(lambda j: implies(keep_file(u[j]), r[n_keep(u, 0, j)] == u[j]), 0, k),
               forall(lambda x: keep_file(r[x]), 0, length(r)))


def n_star(u, lo, hi):
    return cnt(lambda j: u[j] == '*', lo, hi)


SPEC.update(dict(keep_file=keep_file, skip_file=skip_file, n_keep=n_keep, kept_ok=kept_ok, n_star=n_star))


# ----------------------------------------------------------------------------- C01/C03: delta-max and kappa
from pyvc.speclib import rmax, rep, cat


@memo
def D_of(text):
    """delta of the sequence object built from a reduced-alphabet candidate string"""
    u = upper_seq(text)
    return delta_spec(u, length(text))


@memo
def dmax_one_type(ch, c, z, N):
    """one charge type: the minority block slid through the majority"""
    return ite(z > c,
               lambda: rmax(lambda pos: D_of(cat(rep('0', pos), rep(ch, c), rep('0', z - pos))), 0, (N - c) + 1),
               lambda: rmax(lambda pos: D_of(cat(rep(ch, pos), rep('0', z), rep(ch, c - pos))), 0, (N - z) + 1))


@memo
def dmax_no_neutrals(p, n, N):
    return ite(p > n,
               lambda: rmax(lambda pos: D_of(cat(rep('+', pos), rep('-', n), rep('+', p - pos))), 0, (N - n) + 1),
               lambda: rmax(lambda pos: D_of(cat(rep('-', pos), rep('+', p), rep('-', n - pos))), 0, (N - p) + 1))


@memo
def cand_three(p, n, z, s, mid):
    """neutrals split start / middle / end around a positive and a negative block"""
    return cat(cat(cat(cat(rep('0', s), rep('+', p)), rep('0', mid)), rep('-', n)), rep('0', z - s - mid))


@define('dmax_row_many', ['int', 'int', 'int', 'int'], 'real')
def dmax_row_many(p, n, z, s):
    """>= 18 neutrals, s of them at the start: best over 0..6 neutrals at the end"""
    return rmax(lambda e: D_of(cand_three(p, n, z, s, z - s - e)), 0, 7)


@define('dmax_row_few', ['int', 'int', 'int', 'int'], 'real')
def dmax_row_few(p, n, z, mid):
    """< 18 neutrals, mid of them between the blocks: best over every split of the rest between start and end"""
    return rmax(lambda s: D_of(cand_three(p, n, z, s, mid)), 0, z - mid + 1)


@memo
def dmax_many_neutrals_upto(p, n, z, s_upto):
    return rmax(lambda s: dmax_row_many(p, n, z, s), 0, s_upto)


@memo
def dmax_few_neutrals_upto(p, n, z, mid_upto):
    return rmax(lambda mid: dmax_row_few(p, n, z, mid), 0, mid_upto)


@define('dmax_spec', ['int', 'int', 'int', 'int'], 'real')
def dmax_spec(p, n, z, N):
    """largest delta among the documented family of maximally segregated arrangements of (p, n, z), N = p+n+z"""
    return ite(p + n == 0, Fraction(0),
               ite(p == 0, lambda: dmax_one_type('-', n, z, N),
                   ite(n == 0, lambda: dmax_one_type('+', p, z, N),
                       ite(z == 0, lambda: dmax_no_neutrals(p, n, N),
                           ite(z >= 18, lambda: dmax_many_neutrals_upto(p, n, z, 7),
                               lambda: dmax_few_neutrals_upto(p, n, z, z + 1))))))


@memo
def dmax_seq(s, N):
    return dmax_spec(npos(s, 0, N), nneg(s, 0, N), nneut(s, 0, N), N)


def kappa_of(delta, dmax):
    """-1 when delta-max is 0; else the ratio, a ratio in (1, 1.1) being reported as exactly 1"""
    return ite(dmax == 0, -1, lambda: ite(And(delta / dmax > 1, delta / dmax < Fraction(11, 10)), Fraction(1), delta / dmax))


SPEC.update(dict(D_of=D_of, dmax_one_type=dmax_one_type, dmax_no_neutrals=dmax_no_neutrals, cand_three=cand_three,
                 dmax_many_neutrals_upto=dmax_many_neutrals_upto, dmax_few_neutrals_upto=dmax_few_neutrals_upto, dmax_row_many=dmax_row_many, dmax_row_few=dmax_row_few,
                 dmax_spec=dmax_spec, dmax_seq=dmax_seq, kappa_of=kappa_of))


def kappa_seq(s, N):
    """kappa of a sequence as the statement defines it"""
    return kappa_of(delta_spec(s, N), dmax_seq(s, N))


def dmax_inv(o):
    """cache part of the class invariant: delta-max is unset (-1) or holds the composition's value"""
    f = o.fields
    return Or(f['dmax'] == -1, f['dmax'] == dmax_seq(f['seq'], f['len']))


def recoded(text, s, N, f):
    """text is, residue by residue, the image of s under the recoding f"""
    return And(length(text) == N, forall(lambda j: text[j] == f(s[j]), 0, N))


SPEC.update(dict(kappa_seq=kappa_seq, dmax_inv=dmax_inv, recoded=recoded))


# ----------------------------------------------------------------------------- C16: phosphosites
def is_sty(c):
    return isin(c, 'STY')


def site_ok(x, s, N):
    """x is a 0-based index inside the sequence holding S, T or Y"""
    return And(x >= 0, x < N, is_sty(s[x]))


def phos_inv(L, s, N):
    """the stored phosphosite list: valid indices, no repeats"""
    L = as_seq(L)
    return And(forall(lambda i: site_ok(L[i], s, N), 0, length(L)),
               forall(lambda i: forall(lambda k: Not(L[i] == L[k]), 0, i), 0, length(L)))


def member(x, L, upto):
    L = as_seq(L)
    return exists(lambda i: L[i] == x, 0, upto)


def sites_after(L1, L0, R, k, s, N):
    """L1 is the site list after the first k requested (1-based) positions R[0:k] were processed starting from L0:
       L0 is kept as a prefix; every further entry was requested and is valid; every valid requested position is present"""
    L1, L0, R = as_seq(L1), as_seq(L0), as_seq(R)
    return And(length(L1) >= length(L0),
               forall(lambda i: L1[i] == L0[i], 0, length(L0)),
               forall(lambda i: exists(lambda q: R[q] - 1 == L1[i], 0, k), length(L0), length(L1)),
               forall(lambda q: implies(site_ok(R[q] - 1, s, N), member(R[q] - 1, L1, length(L1))), 0, k),
               # first-set order: an entry that stands before another one was requested before the other one's first request
               forall(lambda j: forall(lambda i: exists(lambda q: And(R[q] - 1 == L1[i], forall(lambda r: Not(R[r] - 1 == L1[j]), 0, q + 1)), 0, k),
                                       length(L0), j), length(L0), length(L1)),
               phos_inv(L1, s, N))


SPEC.update(dict(is_sty=is_sty, site_ok=site_ok, phos_inv=phos_inv, member=member, sites_after=sites_after))
from pyvc.speclib import put


def phos_sub(s, sites, bits):
    """the sequence with E at the sites whose status bit is '1'"""
    t = s
    if HAVE_Z3:
        from pyvc.values import SSeq
        if isinstance(s, SSeq):
            t = SSeq(s.arr, s.off, s.n, 'list', s.ek)
    for site, b in zip(sites, bits):
        if b == '1':
            t = put(t, site, 'E')
    if HAVE_Z3:
        from pyvc.values import SSeq
        if isinstance(t, SSeq):
            t = SSeq(t.arr, t.off, t.n, 'str', t.ek)
    return t


def dist_entry_ok(entry, s, N, sites, bits):
    """one entry of the phosphostatus distribution: kappa, f+, f-, FCR, NCPR, hydropathy of the substituted sequence, and the status"""
    u = upper_seq(phos_sub(s, sites, bits))
    p, n = npos(u, 0, N), nneg(u, 0, N)
    return And(entry[0] == kappa_seq(u, N), entry[1] == toreal(p) / N, entry[2] == toreal(n) / N, entry[3] == toreal(p + n) / N,
               entry[4] == toreal(p - n) / N, entry[5] == res_sum(kd_shifted, u, 0, N) / N, tuple(entry[6]) == tuple(bits))


def dist_ok(result, s, N, sites):
    import itertools
    k = len(sites)
    if len(result) != 2 ** k:
        return False
    acc = True
    for j, bits in enumerate(itertools.product('01', repeat=k)):
        acc = And(acc, dist_entry_ok(result[j], s, N, sites, bits))
    return acc


SPEC.update(dict(phos_sub=phos_sub, dist_entry_ok=dist_entry_ok, dist_ok=dist_ok))


# ----------------------------------------------------------------------------- C17: shuffles
def nmov(frozen, j):
    """number of non-frozen positions before j"""
    return cnt(lambda i: Not(isin(i, frozen)), 0, j)


SPEC.update(dict(nmov=nmov))


# ----------------------------------------------------------------------------- C03.d: the returned permutant
def n_sym(s, ch, lo, hi):
    """number of positions lo <= j < hi holding the reduced-alphabet symbol ch"""
    return cnt(lambda j: s[j] == ch, lo, hi)


def same_letters(p, s, N):
    """p uses every letter exactly as often as s does.  Symbolically this is stated for ONE letter, the unconstrained constant LETTER
    (nothing is ever assumed about it, so what is proved holds for every letter); natively all letters are compared"""
    if HAVE_Z3:
        from pyvc.values import is_symbolic
        if is_symbolic(p) or is_symbolic(s) or is_symbolic(N):
            return cnt(lambda x: p[x] == LETTER, 0, N) == cnt(lambda x: s[x] == LETTER, 0, N)
    return sorted(p[:N]) == sorted(s[:N])


def attained(p, s, N, d):
    """p is a candidate answer for "a sequence made of exactly the residues of s whose delta equals d": right length, residues only,
    every letter as often as in s (hence the same charge-class counts), delta == d"""
    n = length(p)
    return And(n == N, forall(lambda j: is_aa(p[j]), 0, n), npos(p, 0, n) == npos(s, 0, N), nneg(p, 0, n) == nneg(s, 0, N),
               same_letters(p, s, N), delta_spec(p, n) == d)


def perm_ok(o, flag):
    """cache invariant of the permutant: when it is recorded it attains the recorded delta-max"""
    if flag is False:
        return True
    f = o.fields
    sd = f['seqDeltaMax']
    if sd is None:
        return f['dmax'] == -1
    return Or(f['dmax'] == -1, And(Not(is_none(sd)), attained(the(sd), f['seq'], f['len'], f['dmax'])))


from pyvc.speclib import is_none, the
LETTER = None
if HAVE_Z3:
    import z3 as _z3
    from pyvc.values import SChar as _SChar
    LETTER = _SChar(_z3.Int('LETTER'))
SPEC.update(dict(n_sym=n_sym, attained=attained, perm_ok=perm_ok, same_letters=same_letters, LETTER=LETTER))


def annotation_ok(text, region):
    """the annotation is the documented text of the region"""
    acc = True
    for k, t in _T.REGION_TEXT.items():
        acc = And(acc, implies(region == k, text == t))
    return acc


SPEC.update(dict(annotation_ok=annotation_ok))


def bisect_step(mn0, mx0, bc0, pc0, mn1, mx1, mid1, pc1):
    """one iteration of the pI search that does not return: after 19 halvings without success the bracket is first widened by
    one pH unit on the side the last charge points to; then the bracket is halved and the half kept is the one the sign of the
    charge at the mid-point asks for"""
    widen = bc0 + 1 == 20
    wmn = ite(And(widen, Not(pc0 > 0)), lambda: mn0 - 1, lambda: mn0)
    wmx = ite(And(widen, pc0 > 0), lambda: mx0 + 1, lambda: mx0)
    return And(mid1 == (wmn + wmx) / 2,
               Or(And(mn1 == mid1, mx1 == wmx, pc1 > Fraction(2, 100)), And(mx1 == mid1, mn1 == wmn, pc1 < -Fraction(2, 100))))


SPEC.update(dict(bisect_step=bisect_step))


def sty_list_ok(L, s, k):
    """L lists, 1-based and strictly increasing, exactly the positions below k that hold S, T or Y"""
    L = as_seq(L)
    return And(forall(lambda i: And(1 <= L[i], L[i] <= k, is_sty(s[L[i] - 1])), 0, length(L)),
               forall(lambda i: forall(lambda j: L[j] < L[i], 0, i), 0, length(L)),
               forall(lambda j: implies(is_sty(s[j]), member(j + 1, L, length(L))), 0, k))


SPEC.update(dict(sty_list_ok=sty_list_ok))
