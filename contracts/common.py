"""Shared spec functions (written from the property statements) and the builder of a
symbolic `Sequence` receiver that satisfies the class invariant INV.

Everything here is dual mode (pyvc.speclib): the same definitions are evaluated on
exact rationals by the native bounded checks and on z3 terms by the VC generator.
"""
from fractions import Fraction
from pyvc.speclib import (isum, rsum, cnt, ite, implies, iff, And, Or, Not, forall, exists, length, isin, sqrt,
                          pow10, logb, absv, toreal, fdiv, maxv, minv, HAVE_Z3)

AA20 = 'ACDEFGHIKLMNPQRSTVWY'
SEQ = 'localcider/backend/sequence.py'


# ----------------------------------------------------------------------------- statement-level definitions
def charge(c):
    """q = +1 for K/R, -1 for D/E, 0 otherwise (C02, C07)"""
    return ite(isin(c, 'KR'), 1, ite(isin(c, 'DE'), -1, 0))


def npos(s, lo, hi):
    return cnt(lambda j: isin(s[j], 'KR'), lo, hi)


def nneg(s, lo, hi):
    return cnt(lambda j: isin(s[j], 'DE'), lo, hi)


def nneut(s, lo, hi):
    return cnt(lambda j: Not(isin(s[j], 'KRDE')), lo, hi)


def sigma_of(p, n, L):
    """sigma = (f+ - f-)^2 / (f+ + f-), 0 when uncharged; p, n counts in a stretch of length L"""
    fp = toreal(p) / toreal(L)
    fn = toreal(n) / toreal(L)
    return ite(p + n == 0, Fraction(0), lambda: (fp - fn) * (fp - fn) / (fp + fn))


def sigma_seq(s, N):
    return sigma_of(npos(s, 0, N), nneg(s, 0, N), N)


def blob_sigma(s, i, b):
    return sigma_of(npos(s, i, i + b), nneg(s, i, i + b), b)


def dform_upto(s, N, b, k):
    """sum over the first k blobs of (sigma_seq - sigma_blob)^2 / nblobs"""
    nb = N - b + 1
    return rsum(lambda i: (sigma_seq(s, N) - blob_sigma(s, i, b)) * (sigma_seq(s, N) - blob_sigma(s, i, b)) / toreal(nb), 0, k)


def dform(s, N, b):
    """mean squared deviation of the blob sigmas (blob size b) from the sequence sigma; 0 if b > N"""
    return ite(N - b + 1 <= 0, Fraction(0), lambda: dform_upto(s, N, b, N - b + 1))


def delta_spec(s, N):
    return (dform(s, N, 5) + dform(s, N, 6)) / 2


def is_aa(c):
    return isin(c, AA20)


def valid_seq(s, N):
    return forall(lambda j: is_aa(s[j]), 0, N)


SPEC = dict(charge=charge, npos=npos, nneg=nneg, nneut=nneut, sigma_of=sigma_of, sigma_seq=sigma_seq,
            blob_sigma=blob_sigma, dform_upto=dform_upto, dform=dform, delta_spec=delta_spec, is_aa=is_aa,
            valid_seq=valid_seq, AA20=AA20)


# ----------------------------------------------------------------------------- symbolic receiver
def mk_sequence(alphabet='aa', dmax='any', prefix='self', nmin=1):
    """builder of a symbolic Sequence object satisfying INV.
       alphabet: 'aa' (20 letters) | 'reduced' ('+','-','0' allowed too) | 'any'
       dmax:     'unset' (-1) | 'any' (symbolic real)"""
    def build(it, case):
        import z3
        from pyvc.values import Obj, SSeq, Sym, SChar, Opaque
        from pyvc import ops
        from pyvc.ops import LAM
        mod = it.sb.load('localcider.backend.sequence')
        o = Obj(mod.Sequence, prefix)
        seq = it.fresh_seq(prefix + '.seq', 'str', 'char')
        it.assume(seq.n >= nmin)
        j = z3.Int('j!inv')
        c = z3.Select(seq.arr, j)
        if alphabet == 'aa':
            it.pc.append(z3.ForAll([j], z3.Implies(z3.And(j >= 0, j < seq.n), z3.Or([c == ord(a) for a in AA20]))))
        elif alphabet == 'reduced':
            it.pc.append(z3.ForAll([j], z3.Implies(z3.And(j >= 0, j < seq.n), z3.Or([c == ord(a) for a in AA20 + '+-0']))))
        o.fields['seq'] = seq
        o.fields['len'] = Sym(seq.n, 'int')
        jj = z3.Int('j!cp')
        cc = z3.Select(seq.arr, jj)
        if alphabet == 'aa':
            body = z3.If(z3.Or(cc == ord('K'), cc == ord('R')), z3.IntVal(1),
                         z3.If(z3.Or(cc == ord('D'), cc == ord('E')), z3.IntVal(-1), z3.IntVal(0)))
        else:
            body = z3.If(z3.Or(cc == ord('K'), cc == ord('R'), cc == ord('+')), z3.IntVal(1),
                         z3.If(z3.Or(cc == ord('D'), cc == ord('E'), cc == ord('-')), z3.IntVal(-1), z3.IntVal(0)))
        o.fields['chargePattern'] = SSeq(LAM(jj, body), 0, seq.n, 'nd', 'int')
        if dmax == 'unset':
            o.fields['dmax'] = -1
        else:
            o.fields['dmax'] = it.fresh(prefix + '.dmax', 'real')
        o.fields['seqDeltaMax'] = case.get('seqDeltaMax', Opaque('seqDeltaMax'))
        o.fields['phosphosites'] = Opaque('phosphosites')
        o.fields['aminoAcidColorMap'] = Opaque('palette')
        o.fields['ComplexityObject'] = Obj(mod.SequenceComplexity, 'cx')
        return o
    return build
