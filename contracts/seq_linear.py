"""Contracts: sliding-window profiles (C10)."""
from .common import SEQ, mk_sequence

K = SEQ + ':Sequence.'
CONTRACT = {}
LOOPS = {}

CONTRACT[K + '__check_window_to_length'] = dict(
    self=mk_sequence(), params={'bloblen': 'int'}, modifies=[], ensures=[],
    raises=[('SequenceException', 'bloblen > self.len')])

WINDOW_RAISES = [('SequenceException', 'bloblen > self.len')]


def profile(name, acc, stat, extra_loops=None, params=None, requires=None):
    CONTRACT[K + name] = dict(
        self=mk_sequence(), params=dict({'bloblen': 'int'}, **(params or {})), requires=['bloblen >= 1'] + (requires or []),
        raises=WINDOW_RAISES, modifies=[], returns='rows:int,real',
        ensures=['positions_ok(result[0], self.len)',
                 'profile_ok(result[1], self.len, bloblen, lambda i: %s)' % stat])
    return acc


for name, acc, stat in [('linearDistOfNCPR', 'blobncpr', 'win_ncpr(self.seq, i, bloblen)'),
                        ('linearDistOfFCR', 'blobfcr', 'win_fcr(self.seq, i, bloblen)'),
                        ('linearDistOfSigma', 'blobsig', 'win_sigma(self.seq, i, bloblen)')]:
    profile(name, acc, stat)
    LOOPS[K + name] = {0: dict(index='i', types={acc: 'list[real]'}, invariant=[
        'length(%s) == nblobs' % acc,
        'forall(lambda j: %s[j] == %s, 0, i)' % (acc, stat.replace(', i, ', ', j, '))])}

profile('linearDistOfHydropathy', 'blobhydro', 'win_hydro(self.seq, i, bloblen)')
LOOPS[K + 'linearDistOfHydropathy'] = {
    0: dict(index='k', types={'hydrochain': 'list[real]'}, invariant=[
        'length(hydrochain) == k', 'forall(lambda j: hydrochain[j] == T_kd_uversky(self.seq[j]), 0, k)']),
    1: dict(index='i', types={'blobhydro': 'list[real]'}, invariant=[
        'length(blobhydro) == nblobs', 'forall(lambda j: blobhydro[j] == win_hydro(self.seq, j, bloblen), 0, i)'],
        lemmas=['sum_ext(hydrochain, mkseq(lambda j: T_kd_uversky(self.seq[j]), self.len), i, i + bloblen)']),
}

# ----------------------------------------------------------------------------- composition profiles
CONTRACT[K + 'linearDenistyOfAAs'] = dict(
    self=mk_sequence(), params={'bloblen': 'int', 'targetAAs': 'set[char]'}, requires=['bloblen >= 1'],
    raises=WINDOW_RAISES, modifies=[], returns='rows:int,real',
    ensures=['positions_ok(result[0], self.len)',
             'profile_ok(result[1], self.len, bloblen, lambda i: win_set_density(self.seq, targetAAs, i, bloblen))'])
LOOPS[K + 'linearDenistyOfAAs'] = {
    0: dict(index='k', types={'target_seq': 'list[real]'}, invariant=[
        'length(target_seq) == k', 'forall(lambda j: target_seq[j] == ite(isin(self.seq[j], targetAAs), 1.0, 0.0), 0, k)']),
    1: dict(index='i', types={'blob_density': 'list[real]'}, invariant=[
        'length(blob_density) == nblobs', 'forall(lambda j: blob_density[j] == win_set_density(self.seq, targetAAs, j, bloblen), 0, i)'],
        lemmas=['sum_ext(target_seq, mkseq(lambda j: ite(isin(self.seq[j], targetAAs), 1.0, 0.0), self.len), i, i + bloblen)']),
}

CONTRACT[K + '__parse_group'] = dict(
    self=mk_sequence(), params={'localgrp': 'list[char]'}, modifies=[],
    raises=[('SequenceException', 'Not(group_valid(localgrp))')],
    ensures=['result == mkset(lambda c: in_group(c, localgrp))'])
LOOPS[K + '__parse_group'] = {0: dict(index='k', invariant=['forall(lambda j: is_aa(upper_char(old(localgrp)[j])), 0, k)'])}

CONTRACT[K + 'linearCompositions'] = dict(
    self=mk_sequence(), params={'bloblen': 'int', 'grps': ('const', [])}, requires=['bloblen >= 1'],
    cases=[dict(params={'grps': (lambda it, case: [])}, groups='STD'),                       # fresh shared default list
           dict(params={'grps': (lambda it, case: [list(g) for g in STD7])}, groups='STD'),  # default list already filled by an earlier call
           dict(params={'grps': (lambda it, case: [it.fresh_seq('g0', 'list', 'char')])}, groups='USER1'),
           dict(params={'grps': (lambda it, case: [it.fresh_seq('g0', 'list', 'char'), it.fresh_seq('g1', 'list', 'char')])}, groups='USER2')],
    raises=[('SequenceException', 'Or(bloblen > self.len, Not(groups_valid(grps)))')], modifies=[],
    returns=lambda it, env: _comp_result(it, env),
    ensures=['positions_ok(result[0], self.len)',
             'rows_ok(result[1], (STD_GROUPS if length(old(grps)) == 0 else old(grps)), self.len, bloblen, self.seq)'])
STD7 = [['E', 'D'], ['R', 'K'], ['R', 'K', 'E', 'D'], ['Q', 'N', 'S', 'T', 'G', 'H', 'C'], ['A', 'L', 'M', 'I', 'V'], ['F', 'Y', 'W'], ['P']]


def _comp_result(it, env):
    from pyvc.models import Stack2D
    k = len(env['grps']) or 7
    rows = [it.fresh_seq('density.row%d' % i, 'nd', 'real') for i in range(k)]
    return (it.fresh_seq('positions', 'nd', 'int'), rows[0] if k == 1 else Stack2D(rows))
