"""Contracts: permutation moves (C17)."""
from .common import SEQ, mk_sequence

K = SEQ + ':Sequence.'
CONTRACT = {}
LOOPS = {}


def new_sequence_obj(it, env, name='child'):
    """result object of a move: a fresh Sequence instance whose fields are constrained by the ensures clauses"""
    from pyvc.values import Obj, Opaque
    mod = it.sb.load('localcider.backend.sequence')
    o = Obj(mod.Sequence, it.fresh_name(name))
    o.fields['seq'] = it.fresh_seq(name + '.seq', 'str', 'char')
    o.fields['len'] = it.fresh(name + '.len', 'int')
    o.fields['chargePattern'] = it.fresh_seq(name + '.cp', 'nd', 'int')
    o.fields['dmax'] = it.fresh(name + '.dmax', 'real')
    o.fields['seqDeltaMax'] = None
    o.fields['phosphosites'] = []
    o.fields['aminoAcidColorMap'] = Opaque('palette')
    o.fields['ComplexityObject'] = Obj(mod.SequenceComplexity, 'cx')
    return o


CHILD_OK = ['seq_inv(result)', 'Or(result.dmax == -1, result.dmax == self.dmax)']

# C17.a: pair swap
CONTRACT[K + 'swapRes'] = dict(
    self=mk_sequence(), params={'index1': 'int', 'index2': 'int'},
    requires=['And(0 <= index1, index1 < self.len, 0 <= index2, index2 < self.len)'],
    raises=[], modifies=[], returns=new_sequence_obj,
    ensures=['result.len == self.len',
             'forall(lambda j: result.seq[j] == ite(j == index1, self.seq[index2], ite(j == index2, self.seq[index1], self.seq[j])), 0, self.len)'] + CHILD_OK)

# C17.b: charge-type swap with frozen positions
CONTRACT[K + 'swapRandChargeRes'] = dict(
    self=mk_sequence(), params={'frozen': 'set[int]'},
    raises=[], modifies=[], returns=new_sequence_obj,
    ensures=['result.len == self.len',
             'forall(lambda j: implies(isin(j, frozen), result.seq[j] == self.seq[j]), 0, self.len)',
             'Or(forall(lambda j: result.seq[j] == self.seq[j], 0, self.len), '
             'exists(lambda a: exists(lambda b: And(Not(isin(a, frozen)), Not(isin(b, frozen)), '
             'forall(lambda j: result.seq[j] == ite(j == a, self.seq[b], ite(j == b, self.seq[a], self.seq[j])), 0, self.len)), 0, self.len), 0, self.len))',
             'seq_inv(result)', 'Or(result.dmax == -1, result.dmax == self.dmax)'])

# C17.c: full shuffle with frozen positions
_SRC = 'local("perm0")[length(local("perm0")) - 1 - nmov(frozen, j)]'
CONTRACT[K + 'full_shuffle'] = dict(
    self=mk_sequence(), params={'frozen': 'set[int]'}, ghost_locals={'perm0': 'list[int]'},
    raises=[], modifies=[], returns=new_sequence_obj,
    ensures=['result.len == self.len',
             'forall(lambda j: implies(isin(j, frozen), result.seq[j] == self.seq[j]), 0, self.len)',
             # every other position receives the residue of a movable source position given by the shuffled enumeration
             'forall(lambda j: implies(Not(isin(j, frozen)), And(result.seq[j] == self.seq[%s], Not(isin(%s, frozen)), 0 <= %s, %s < self.len)), 0, self.len)' % (_SRC, _SRC, _SRC, _SRC),
             'seq_inv(result)', 'Or(result.dmax == -1, result.dmax == self.dmax)'])
_P0 = 'perm0[length(perm0) - 1 - nmov(frozen, j)]'
LOOPS[K + 'full_shuffle'] = {
    0: dict(index='k', types={'lookup': 'sdict[char]'}, invariant=[
        'index == k', 'forall(lambda j: And(isin(j, lookup), lookup[j] == self.seq[j]), 0, k)']),
    1: dict(index='i', types={'new_seq': 'list[char]', 'newseq': 'list[int]'}, ghost={'perm0': 'newseq'}, invariant=[
        'length(new_seq) == i',
        'length(newseq) == length(perm0) - nmov(frozen, i)',
        'forall(lambda j: newseq[j] == perm0[j], 0, length(newseq))',
        'forall(lambda j: And(0 <= perm0[j], perm0[j] < self.len, Not(isin(perm0[j], frozen))), 0, length(perm0))',
        'forall(lambda j: new_seq[j] == ite(isin(j, frozen), self.seq[j], self.seq[%s]), 0, i)' % _P0],
        lemmas=['nmov_strict(frozen, self.len)', 'nmov_nonneg(frozen, i)', 'nmov_mono(frozen, i, self.len)', 'nmov_nonneg_all(frozen, self.len)'],
        exit_lemmas=['nmov_strict(frozen, self.len)', 'nmov_nonneg_all(frozen, self.len)']),
}

# ----------------------------------------------------------------------------- C17.d forwarders
from .seq_init import SPK, mk_blank_sp, CONTRACT as _INITC
from .seqparams import mk_seqparams


def _some_sequence(it, case):
    return mk_sequence(prefix='given')(it, case)


CONTRACT[SPK + '__init__#seqobj'] = dict(
    self=mk_blank_sp, params={'sequence': ('const', ''), 'sequenceFile': ('const', ''), 'SeqObj': _some_sequence}, no_inv=True,
    raises=[], modifies=['SeqObj'], ensures=['self.SeqObj is SeqObj'],
    ctor_fields=dict(SeqObj='SeqObj'), ctor_objects={})
_INITC[SPK + '__init__']['dispatch'] = [('SeqObj is not None', SPK + '__init__#seqobj')]


def new_sp_obj(it, env):
    from pyvc.values import Obj
    mod = it.sb.load('localcider.sequenceParameters')
    o = Obj(mod.SequenceParameters, it.fresh_name('sp'))
    o.fields['SeqObj'] = new_sequence_obj(it, env)
    return o


CONTRACT[SPK + 'get_shuffled_sequence'] = dict(
    self=mk_seqparams(), params={'frozen': 'set[int]'}, raises=[], modifies=[], returns=new_sp_obj,
    ensures=['result.SeqObj.len == self.SeqObj.len',
             'forall(lambda j: implies(isin(j, frozen), result.SeqObj.seq[j] == self.SeqObj.seq[j]), 0, self.SeqObj.len)',
             'seq_inv(result.SeqObj)', 'Or(result.SeqObj.dmax == -1, result.SeqObj.dmax == self.SeqObj.dmax)'])

PERM = 'localcider/sequencePermutants.py:SequencePermutants.'


def mk_permutants(it, case):
    from pyvc.values import Obj
    mod = it.sb.load('localcider.sequencePermutants')
    o = Obj(mod.SequencePermutants, 'self')
    o.fields['SeqObj'] = mk_sequence(prefix='self.SeqObj')(it, case)
    o.fields['WL_ready'] = False
    return o


mk_permutants.inv = 'seq_inv(self.SeqObj)'
CONTRACT[PERM + 'get_permutant'] = dict(
    self=mk_permutants, raises=[], modifies=[], returns=new_sp_obj,
    ensures=['result.SeqObj.len == self.SeqObj.len', 'seq_inv(result.SeqObj)',
             'Or(result.SeqObj.dmax == -1, result.SeqObj.dmax == self.SeqObj.dmax)'])


def _build_sp_from_string(it, env, selfobj):
    selfobj.fields['SeqObj'] = new_sequence_obj(it, env, 'made')


_INITC[SPK + '__init__']['ctor_build'] = _build_sp_from_string


# ----------------------------------------------------------------------------- C17.e: block swap (two disjoint blocks of equal length exchanged)
def block_swapped(r, s, N):
    """r is s with two disjoint stretches of the same length exchanged (possibly of length 0)"""
    from pyvc.speclib import And, exists, forall, ite, length
    return And(length(r) == N, exists(lambda a: exists(lambda b: exists(lambda L: And(
        0 <= a, 0 <= L, a + L <= b, b + L <= N,
        forall(lambda j: r[j] == ite(And(a <= j, j < a + L), lambda: s[b + (j - a)], lambda: ite(And(b <= j, j < b + L), lambda: s[a + (j - b)], lambda: s[j])), 0, N)),
        0, N + 1), 0, N + 1), 0, N + 1))


SPEC = dict(block_swapped=block_swapped)
CONTRACT[K + 'permute_block_swap'] = dict(
    self=mk_sequence(), params={'frozen': 'set[int]'}, requires=['self.len >= 4'],
    raises=[], may_raise=[('SequenceException', 'True')], modifies=[], returns=new_sequence_obj,
    ensures=['result.len == self.len', 'block_swapped(result.seq, self.seq, self.len)'] + CHILD_OK)
LOOPS[K + 'permute_block_swap'] = {0: dict(
    types={'new_delta': 'real', 'it': 'int', 'outseq': 'seqobj'},
    invariant=['And(0 <= it, it <= 100)', 'Or(And(it == 0, new_delta == old_delta), And(it >= 1, outseq.len == self.len, block_swapped(outseq.seq, self.seq, self.len), '
               'seq_inv(outseq), Or(outseq.dmax == -1, outseq.dmax == self.dmax)))'],
    witness={1: ['min(blocks_to_swap[0])', 'min(blocks_to_swap[1])', 'max(blocks_to_swap[0]) - min(blocks_to_swap[0])']},
    variant='(100 - it,)')}


# ----------------------------------------------------------------------------- C17.f / C18: what the Wang-Landau loop relies on
# "the delta-max handed from parent to child is the child's own" needs count preservation under each rearrangement, which is not mechanised
# (C17: bounded native check).  Callers may use it as an ASSUMED clause; it is reported as an assumption wherever it is used.
for _mv in ('swapRandChargeRes', 'full_shuffle', 'permute_block_swap'):
    CONTRACT[K + _mv]['assumed_ensures'] = ['dmax_inv(result)']
# the charge-clustering move is not under contract (pop(0)/filter comprehensions over index lists): ASSUMED contract, bounded native check only
CONTRACT[K + 'permute_cluster_charges'] = dict(
    self=mk_sequence(), params={'frozen': 'set[int]'}, raises=[], may_raise=[('SequenceException', 'True'), ('ValueError', 'True')],
    modifies=[], returns=new_sequence_obj, trusted=True,
    ensures=['result.len == self.len'] + CHILD_OK, assumed_ensures=['dmax_inv(result)'])
