"""Contracts of the SequenceParameters forwarders: same postcondition as the backend method, stated over
self.SeqObj; pH-taking getters reject pH outside [0,14] before the backend is called (C09.c)."""
from .common import SEQ, mk_sequence
from . import seq_core, seq_comp, seq_linear

SP = 'localcider/sequenceParameters.py:SequenceParameters.'
KB = SEQ + ':Sequence.'
CONTRACT = {}
LOOPS = {}


def mk_seqparams(**kw):
    inner = mk_sequence(prefix='self.SeqObj', **kw)

    def build(it, case):
        from pyvc.values import Obj
        mod = it.sb.load('localcider.sequenceParameters')
        o = Obj(mod.SequenceParameters, 'self')
        o.fields['SeqObj'] = inner(it, case)
        return o
    build.inv = 'seq_inv(self.SeqObj)'
    return build


def backend_contract(name):
    for m in (seq_core, seq_comp, seq_linear):
        if KB + name in m.CONTRACT:
            return m.CONTRACT[KB + name]
    raise KeyError(name)


def forward(spname, backend, with_ph=False, extra=None, rename=None):
    b = backend_contract(backend)

    def rn(e):
        e = e.replace('self.', 'self.SeqObj.')
        for a, bb in (rename or {}).items():
            e = e.replace(a, bb)
        return e
    c = dict(self=mk_seqparams(), modifies=[], params={(rename or {}).get(k, k): v for k, v in b.get('params', {}).items()},
             ensures=[rn(e) for e in b.get('ensures', [])], requires=[rn(e) for e in b.get('requires', [])])
    if b.get('raises'):
        c['raises'] = [(en, rn(cond)) for en, cond in b['raises']]
    if 'cases' in b:
        c['cases'] = [dict(cs, params={(rename or {}).get(k, k): v for k, v in cs.get('params', {}).items()}) for cs in b['cases']]
    if 'returns' in b:
        c['returns'] = b['returns']
    if with_ph:
        c['raises'] = c.get('raises', []) + [('SequenceException', 'pH is not None and Or(pH < 0, pH > 14)')]
    if extra:
        c.update(extra)
    CONTRACT[SP + spname] = c


for sp_, be_ in [('get_mean_hydropathy', 'meanHydropathy'), ('get_uversky_hydropathy', 'uverskyHydropathy'),
                 ('get_WW_hydropathy', 'meanWWHydropathy'), ('get_fraction_disorder_promoting', 'fraction_disorder_promoting'),
                 ('get_amino_acid_fractions', 'amino_acid_fraction'), ('get_SCD', 'sequence_charge_decoration'), ('get_delta', 'delta'),
                 ('get_countPos', 'countPos'), ('get_countNeg', 'countNeg'), ('get_countNeut', 'countNeut'),
                 ('get_fraction_positive', 'Fplus'), ('get_fraction_negative', 'Fminus'), ('get_molecular_weight', 'molecular_weight'),
                 ('get_phasePlotRegion', 'phasePlotRegion'), ('get_PPII_propensity', 'FPPII_chain')]:
    forward(sp_, be_)
for sp_, be_ in [('get_FCR', 'FCR'), ('get_NCPR', 'NCPR'), ('get_mean_net_charge', 'mean_net_charge'), ('get_fraction_expanding', 'FER')]:
    forward(sp_, be_, with_ph=True)

CONTRACT[SP + '__verify_pH'] = dict(
    self=mk_seqparams(), params={'pH': 'real'}, modifies=[], ensures=[],
    raises=[('SequenceException', 'Or(pH < 0, pH > 14)')])

for sp_, be_ in [('get_linear_sigma', 'linearDistOfSigma'), ('get_linear_NCPR', 'linearDistOfNCPR'), ('get_linear_FCR', 'linearDistOfFCR'),
                 ('get_linear_hydropathy', 'linearDistOfHydropathy'), ('get_linear_sequence_composition', 'linearCompositions')]:
    forward(sp_, be_, rename={'bloblen': 'blobLen'})
