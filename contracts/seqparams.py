"""Contracts of the SequenceParameters forwarders: same postcondition as the backend method, stated over
self.SeqObj; pH-taking getters reject pH outside [0,14] before the backend is called (C09.c)."""
from .common import SEQ, mk_sequence
from . import seq_core, seq_comp, seq_linear, seq_kappa, seq_phos

SP = 'localcider/sequenceParameters.py:SequenceParameters.'
KB = SEQ + ':Sequence.'
CONTRACT = {}
LOOPS = {}


def mk_seqparams(**kw):
    inner = mk_sequence(prefix='self.SeqObj', **kw)

    def build(it, case):
        from pyvc.values import Obj
        mod = it.sb.load('localcider.sequenceParameters')
        o = Obj(mod.SequenceParameters, 'self')
        o.fields['SeqObj'] = inner(it, case)
        return o
    build.inv = 'seq_inv(self.SeqObj)'
    return build


def backend_contract(name):
    for m in (seq_core, seq_comp, seq_linear, seq_kappa, seq_phos):
        if KB + name in m.CONTRACT:
            return m.CONTRACT[KB + name]
    raise KeyError(name)


def forward(spname, backend, with_ph=False, extra=None, rename=None, selfb=None):
    b = backend_contract(backend)

    def rn(e):
        import re
        e = re.sub(r'\bself\b', 'self.SeqObj', e)
        for a, bb in (rename or {}).items():
            e = e.replace(a, bb)
        return e
    c = dict(self=selfb or mk_seqparams(), modifies=[], params={(rename or {}).get(k, k): v for k, v in b.get('params', {}).items()},
             ensures=[rn(e) for e in b.get('ensures', [])], requires=[rn(e) for e in b.get('requires', [])])
    if b.get('raises'):
        c['raises'] = [(en, rn(cond)) for en, cond in b['raises']]
    if 'cases' in b:
        c['cases'] = []
        for cs in b['cases']:
            d = {k: v for k, v in cs.items() if k not in ('self',)}
            d['params'] = {(rename or {}).get(k, k): v for k, v in cs.get('params', {}).items()}
            d['requires'] = [rn(r) for r in cs.get('requires', [])] + (['self.SeqObj.dmax == -1'] if cs.get('tag') == 'cache-empty' else [])
            d['ensures'] = [rn(r) for r in cs.get('ensures', [])]
            c['cases'].append(d)
    if 'returns' in b:
        c['returns'] = b['returns']
    if b.get('modifies'):
        c['modifies'] = ['SeqObj.' + f for f in b['modifies']]
    if with_ph:
        c['raises'] = c.get('raises', []) + [('SequenceException', 'pH is not None and Or(pH < 0, pH > 14)')]
    if extra:
        c.update(extra)
    CONTRACT[SP + spname] = c


for sp_, be_ in [('get_mean_hydropathy', 'meanHydropathy'), ('get_uversky_hydropathy', 'uverskyHydropathy'),
                 ('get_WW_hydropathy', 'meanWWHydropathy'), ('get_fraction_disorder_promoting', 'fraction_disorder_promoting'),
                 ('get_amino_acid_fractions', 'amino_acid_fraction'), ('get_SCD', 'sequence_charge_decoration'), ('get_delta', 'delta'),
                 ('get_countPos', 'countPos'), ('get_countNeg', 'countNeg'), ('get_countNeut', 'countNeut'),
                 ('get_fraction_positive', 'Fplus'), ('get_fraction_negative', 'Fminus'), ('get_molecular_weight', 'molecular_weight'),
                 ('get_phasePlotRegion', 'phasePlotRegion'), ('get_PPII_propensity', 'FPPII_chain')]:
    forward(sp_, be_)
for sp_, be_ in [('get_FCR', 'FCR'), ('get_NCPR', 'NCPR'), ('get_mean_net_charge', 'mean_net_charge'), ('get_fraction_expanding', 'FER')]:
    forward(sp_, be_, with_ph=True)

CONTRACT[SP + '__verify_pH'] = dict(
    self=mk_seqparams(), params={'pH': 'real'}, modifies=[], ensures=[],
    raises=[('SequenceException', 'Or(pH < 0, pH > 14)')])

for sp_, be_ in [('get_linear_sigma', 'linearDistOfSigma'), ('get_linear_NCPR', 'linearDistOfNCPR'), ('get_linear_FCR', 'linearDistOfFCR'),
                 ('get_linear_hydropathy', 'linearDistOfHydropathy'), ('get_linear_sequence_composition', 'linearCompositions')]:
    forward(sp_, be_, rename={'bloblen': 'blobLen'})

for sp_, be_ in [('get_kappa', 'kappa'), ('get_Omega_sequence', 'Omega_seq'), ('get_deltaMax', 'deltaMax')]:
    forward(sp_, be_)


def mk_seqparams_phos(nsites=None, **kw):
    inner = seq_phos.mk_seq_phos(nsites, prefix='self.SeqObj', **kw)

    def build(it, case):
        from pyvc.values import Obj
        mod = it.sb.load('localcider.sequenceParameters')
        o = Obj(mod.SequenceParameters, 'self')
        o.fields['SeqObj'] = inner(it, case)
        return o
    build.inv = 'And(seq_inv(self.SeqObj), phos_inv(self.SeqObj.phosphosites, self.SeqObj.seq, self.SeqObj.len))'
    return build


for sp_, be_, rn_ in [('set_phosphosites', 'setPhosPhoSites', {'listOfPsites': 'phosphosites'}), ('clear_phosphosites', 'clear_phosphosites', None),
                      ('get_phosphosites', 'get_phosphosites', None), ('get_phosphosequence', 'get_phosphosequence', None)]:
    forward(sp_, be_, rename=rn_, selfb=mk_seqparams_phos())

forward('get_kappa_after_phosphorylation', 'kappa_at_maxPhos', selfb=mk_seqparams_phos())
CONTRACT[SP + 'get_kappa_after_phosphorylation']['ensures'] = [e.replace('local("newseq", "")', 'local("ghost_newseq", "")')
                                                             for e in CONTRACT[SP + 'get_kappa_after_phosphorylation']['ensures']]
CONTRACT[SP + 'get_kappa_after_phosphorylation'].pop('ghost_locals', None)
forward('get_all_phosphorylatable_sites', 'get_STY_residues', selfb=mk_seqparams_phos())
CONTRACT[SP + 'get_full_phosphostatus_kappa_distribution'] = dict(
    self=mk_seqparams_phos(nsites=1, dmax='unset'), cases=[dict(self=mk_seqparams_phos(nsites=k, dmax='unset')) for k in (0, 1, 2, 3)],
    raises=[], modifies=[],
    ensures=['dist_ok(result, self.SeqObj.seq, self.SeqObj.len, self.SeqObj.phosphosites)'])

# forwarders whose backend postcondition names a witness (the recoded string): the callee's ghost is visible as local("ghost_newseq")
for sp_, be_ in [('get_kappa_X', 'kappa_X'), ('get_Omega', 'Omega')]:
    forward(sp_, be_)
    c_ = CONTRACT[SP + sp_]
    c_.pop('ghost_locals', None)
    c_['ensures'] = [e.replace('local("newseq")', 'local("ghost_newseq")') for e in c_['ensures']]
    for cs_ in c_.get('cases', []):
        cs_['ensures'] = [e.replace('local("newseq")', 'local("ghost_newseq")') for e in cs_.get('ensures', [])]
