"""Inductive lemmas used by the contracts (each is proved: two VCs, base and step)."""
from pyvc.lemma import Lemma

LEMMAS = {}


def L(name, params, claim, ind, base, requires=(), uses=()):
    LEMMAS[name] = Lemma(name, params, claim, ind, base, requires, uses)


# every residue is positive, negative or neutral: the three counts partition any stretch
L('count_partition', {'s': 'str', 'lo': 'int', 'hi': 'int'},
  'npos(s, lo, hi) + nneg(s, lo, hi) + nneut(s, lo, hi) == hi - lo', ind='hi', base='lo', requires=['hi >= lo'])
# counts are non-negative
L('npos_nonneg', {'s': 'str', 'lo': 'int', 'hi': 'int'}, 'npos(s, lo, hi) >= 0', ind='hi', base='lo')
L('nneg_nonneg', {'s': 'str', 'lo': 'int', 'hi': 'int'}, 'nneg(s, lo, hi) >= 0', ind='hi', base='lo')
L('nneut_nonneg', {'s': 'str', 'lo': 'int', 'hi': 'int'}, 'nneut(s, lo, hi) >= 0', ind='hi', base='lo')
