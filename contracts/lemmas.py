"""Inductive lemmas used by the contracts (each is proved: two VCs, base and step)."""
from pyvc.lemma import Lemma

LEMMAS = {}


def L(name, params, claim, ind, base, requires=(), uses=()):
    LEMMAS[name] = Lemma(name, params, claim, ind, base, requires, uses)


# every residue is positive, negative or neutral: the three counts partition any stretch
L('count_partition', {'s': 'str', 'lo': 'int', 'hi': 'int'},
  'npos(s, lo, hi) + nneg(s, lo, hi) + nneut(s, lo, hi) == hi - lo', ind='hi', base='lo', requires=['hi >= lo'])
# counts are non-negative
L('npos_nonneg', {'s': 'str', 'lo': 'int', 'hi': 'int'}, 'npos(s, lo, hi) >= 0', ind='hi', base='lo')
L('nneg_nonneg', {'s': 'str', 'lo': 'int', 'hi': 'int'}, 'nneg(s, lo, hi) >= 0', ind='hi', base='lo')
L('nneut_nonneg', {'s': 'str', 'lo': 'int', 'hi': 'int'}, 'nneut(s, lo, hi) >= 0', ind='hi', base='lo')

# two sequences that agree on [lo,hi) have the same sum there (used where a loop has built a list of per-residue values)
L('sum_ext', {'a': 'list[real]', 'b': 'list[real]', 'lo': 'int', 'hi': 'int'},
  'rsum(lambda j: a[j], lo, hi) == rsum(lambda j: b[j], lo, hi)',
  ind='hi', base='lo', requires=['forall(lambda j: a[j] == b[j], lo, hi)'])

# C09.b: the titration sum never increases with pH, and |net| <= total <= number of titratable residues
L('hh_mono', {'s': 'str', 'p1': 'real', 'p2': 'real', 'lo': 'int', 'hi': 'int'},
  'hh_sum(s, p1, -1, lo, hi) >= hh_sum(s, p2, -1, lo, hi)', ind='hi', base='lo', requires=['p1 <= p2'])
L('hh_bounds', {'s': 'str', 'pH': 'real', 'lo': 'int', 'hi': 'int'},
  'And(absv(hh_sum(s, pH, -1, lo, hi)) <= hh_sum(s, pH, 1, lo, hi), hh_sum(s, pH, 1, lo, hi) <= n_titratable(s, lo, hi), 0 <= hh_sum(s, pH, 1, lo, hi))',
  ind='hi', base='lo')


def T(name, params, claim, requires=(), uses=()):
    """property-level theorem: follows directly from contracts' closed forms and lemma instances"""
    LEMMAS[name] = Lemma(name, params, claim, None, None, requires, uses)


# ---- C09 consequences at the level of the API's closed forms (get_NCPR(pH) = hh_sum(-1)/N, get_FCR(pH) = hh_sum(+1)/N)
T('C09_ncpr_monotone', {'s': 'str', 'N': 'int', 'p1': 'real', 'p2': 'real'},
  'hh_sum(s, p1, -1, 0, N) / toreal(N) >= hh_sum(s, p2, -1, 0, N) / toreal(N)',
  requires=['N >= 1', 'p1 <= p2'], uses=['hh_mono(s, p1, p2, 0, N)'])
T('C09_bounds', {'s': 'str', 'N': 'int', 'pH': 'real'},
  'And(absv(hh_sum(s, pH, -1, 0, N) / toreal(N)) <= hh_sum(s, pH, 1, 0, N) / toreal(N), '
  'hh_sum(s, pH, 1, 0, N) / toreal(N) <= toreal(n_titratable(s, 0, N)) / toreal(N))',
  requires=['N >= 1'], uses=['hh_bounds(s, pH, 0, N)'])
# ---- C04 identities over the closed forms
T('C04_identities', {'s': 'str', 'N': 'int'},
  'And(npos(s, 0, N) + nneg(s, 0, N) + nneut(s, 0, N) == N, '
  'absv(toreal(npos(s, 0, N) - nneg(s, 0, N)) / toreal(N)) <= toreal(npos(s, 0, N) + nneg(s, 0, N)) / toreal(N), '
  'toreal(npos(s, 0, N) + nneg(s, 0, N)) / toreal(N) <= 1)',
  requires=['N >= 1'], uses=['count_partition(s, 0, N)', 'npos_nonneg(s, 0, N)', 'nneg_nonneg(s, 0, N)', 'nneut_nonneg(s, 0, N)'])

# the number of letters before a letter is smaller than the number of letters up to any later point
L('n_aa_strict', {'u': 'str', 'k': 'int'},
  'forall(lambda j: implies(is_aa(u[j]), n_aa(u, 0, j) < n_aa(u, 0, k)), 0, k)', ind='k', base='0')
L('n_aa_nonneg', {'u': 'str', 'lo': 'int', 'hi': 'int'}, 'n_aa(u, lo, hi) >= 0', ind='hi', base='lo')

L('n_keep_strict', {'u': 'str', 'k': 'int'},
  'forall(lambda j: implies(keep_file(u[j]), n_keep(u, 0, j) < n_keep(u, 0, k)), 0, k)', ind='k', base='0')
L('n_keep_nonneg', {'u': 'str', 'lo': 'int', 'hi': 'int'}, 'n_keep(u, lo, hi) >= 0', ind='hi', base='lo')
L('n_star_nonneg', {'u': 'str', 'lo': 'int', 'hi': 'int'}, 'n_star(u, lo, hi) >= 0', ind='hi', base='lo')
# a sequence with no star at all / whose only star is the last character
L('n_star_zero', {'u': 'str', 'lo': 'int', 'hi': 'int'},
  'implies(n_star(u, lo, hi) == 0, forall(lambda j: Not(u[j] == "*"), lo, hi))', ind='hi', base='lo', uses=['n_star_nonneg(u, lo, hi - 1)'])

# the running maximum (started at -1) never drops below -1; instances are added wherever a MaxR term is unfolded
L('rmax_lower', {'a': 'list[real]', 'lo': 'int', 'hi': 'int'}, 'rmax(lambda j: a[j], lo, hi) >= -1', ind='hi', base='lo')

# a non-frozen position i < n has fewer non-frozen positions before it than there are below n
L('nmov_strict', {'frozen': 'set[int]', 'n': 'int'},
  'forall(lambda i: implies(Not(isin(i, frozen)), nmov(frozen, i) < nmov(frozen, n)), 0, n)', ind='n', base='0')
L('nmov_nonneg', {'frozen': 'set[int]', 'n': 'int'}, 'nmov(frozen, n) >= 0', ind='n', base='0')
L('nmov_mono', {'frozen': 'set[int]', 'i': 'int', 'n': 'int'}, 'nmov(frozen, i) <= nmov(frozen, n)', ind='n', base='i', requires=['i <= n'])
L('nmov_nonneg_all', {'frozen': 'set[int]', 'n': 'int'}, 'forall(lambda i: nmov(frozen, i) >= 0, 0, n + 1)', ind='n', base='0')

# a count over [0,n) equals n exactly when the predicate holds everywhere (flat check: every bin meets the criterion)
L('cnt_le', {'b': 'list[bool]', 'n': 'int'}, 'And(0 <= cnt(lambda j: b[j], 0, n), cnt(lambda j: b[j], 0, n) <= maxv(n, 0))', ind='n', base='0')
L('cnt_full', {'b': 'list[bool]', 'n': 'int'}, 'iff(cnt(lambda j: b[j], 0, n) == n, forall(lambda j: b[j], 0, n))', ind='n', base='0',
  requires=['n >= 0'], uses=['cnt_le(b, n)', 'cnt_le(b, n - 1)'])

# ----------------------------------------------------------------------------- C05: patterning parameters see only charge classes
_SAME = 'forall(lambda j: charge(s[j]) == charge(t[j]), 0, N)'
L('npos_ext', {'s': 'str', 't': 'str', 'N': 'int', 'lo': 'int', 'hi': 'int'}, 'npos(s, lo, hi) == npos(t, lo, hi)', ind='hi', base='lo',
  requires=[_SAME, '0 <= lo', 'hi <= N'])
L('nneg_ext', {'s': 'str', 't': 'str', 'N': 'int', 'lo': 'int', 'hi': 'int'}, 'nneg(s, lo, hi) == nneg(t, lo, hi)', ind='hi', base='lo',
  requires=[_SAME, '0 <= lo', 'hi <= N'])
L('nneut_ext', {'s': 'str', 't': 'str', 'N': 'int', 'lo': 'int', 'hi': 'int'}, 'nneut(s, lo, hi) == nneut(t, lo, hi)', ind='hi', base='lo',
  requires=[_SAME, '0 <= lo', 'hi <= N'])
L('dform_ext', {'s': 'str', 't': 'str', 'N': 'int', 'b': 'int', 'k': 'int'}, 'dform_upto(s, N, b, k) == dform_upto(t, N, b, k)', ind='k', base='0',
  requires=[_SAME, 'b >= 1', 'N >= 1', 'k <= N - b + 1'],
  uses=['npos_ext(s, t, N, 0, N)', 'nneg_ext(s, t, N, 0, N)', 'npos_ext(s, t, N, k - 1, k - 1 + b)', 'nneg_ext(s, t, N, k - 1, k - 1 + b)'])
T('C05_delta_substitution', {'s': 'str', 't': 'str', 'N': 'int'}, 'delta_spec(s, N) == delta_spec(t, N)', requires=[_SAME, 'N >= 1'],
  uses=['dform_ext(s, t, N, 5, N - 5 + 1)', 'dform_ext(s, t, N, 6, N - 6 + 1)'])
T('C05_dmax_substitution', {'s': 'str', 't': 'str', 'N': 'int'}, 'dmax_seq(s, N) == dmax_seq(t, N)', requires=[_SAME, 'N >= 1'],
  uses=['npos_ext(s, t, N, 0, N)', 'nneg_ext(s, t, N, 0, N)', 'nneut_ext(s, t, N, 0, N)'])
T('C05_kappa_substitution', {'s': 'str', 't': 'str', 'N': 'int'}, 'kappa_seq(s, N) == kappa_seq(t, N)', requires=[_SAME, 'N >= 1'],
  uses=['dform_ext(s, t, N, 5, N - 5 + 1)', 'dform_ext(s, t, N, 6, N - 6 + 1)', 'npos_ext(s, t, N, 0, N)', 'nneg_ext(s, t, N, 0, N)', 'nneut_ext(s, t, N, 0, N)'])
L('scd_inner_ext', {'s': 'str', 't': 'str', 'N': 'int', 'm': 'int', 'u': 'int'}, 'scd_inner(s, m, u) == scd_inner(t, m, u)', ind='u', base='1',
  requires=[_SAME, '1 <= m', 'm <= N', 'u <= m'])
L('scd_outer_ext', {'s': 'str', 't': 'str', 'N': 'int', 'u': 'int'}, 'scd_outer(s, u) == scd_outer(t, u)', ind='u', base='2',
  requires=[_SAME, 'u <= N + 1'], uses=['scd_inner_ext(s, t, N, u - 1, u - 1)'])
T('C05_scd_substitution', {'s': 'str', 't': 'str', 'N': 'int'}, 'scd_spec(s, N) == scd_spec(t, N)', requires=[_SAME, 'N >= 1'],
  uses=['scd_outer_ext(s, t, N, N + 1)'])

# charge inversion: every positive residue replaced by a negative one and vice versa
_INV = 'forall(lambda j: charge(t[j]) == -charge(s[j]), 0, N)'
L('npos_inv', {'s': 'str', 't': 'str', 'N': 'int', 'lo': 'int', 'hi': 'int'}, 'And(npos(t, lo, hi) == nneg(s, lo, hi), nneg(t, lo, hi) == npos(s, lo, hi))',
  ind='hi', base='lo', requires=[_INV, '0 <= lo', 'hi <= N'])
L('dform_inv', {'s': 'str', 't': 'str', 'N': 'int', 'b': 'int', 'k': 'int'}, 'dform_upto(s, N, b, k) == dform_upto(t, N, b, k)', ind='k', base='0',
  requires=[_INV, 'b >= 1', 'N >= 1', 'k <= N - b + 1'], uses=['npos_inv(s, t, N, 0, N)', 'npos_inv(s, t, N, k - 1, k - 1 + b)'])
T('C05_delta_inversion', {'s': 'str', 't': 'str', 'N': 'int'}, 'delta_spec(s, N) == delta_spec(t, N)', requires=[_INV, 'N >= 1'],
  uses=['dform_inv(s, t, N, 5, N - 5 + 1)', 'dform_inv(s, t, N, 6, N - 6 + 1)'])
L('scd_inner_inv', {'s': 'str', 't': 'str', 'N': 'int', 'm': 'int', 'u': 'int'}, 'scd_inner(s, m, u) == scd_inner(t, m, u)', ind='u', base='1',
  requires=[_INV, '1 <= m', 'm <= N', 'u <= m'])
L('scd_outer_inv', {'s': 'str', 't': 'str', 'N': 'int', 'u': 'int'}, 'scd_outer(s, u) == scd_outer(t, u)', ind='u', base='2',
  requires=[_INV, 'u <= N + 1'], uses=['scd_inner_inv(s, t, N, u - 1, u - 1)'])
T('C05_scd_inversion', {'s': 'str', 't': 'str', 'N': 'int'}, 'scd_spec(s, N) == scd_spec(t, N)', requires=[_INV, 'N >= 1'],
  uses=['scd_outer_inv(s, t, N, N + 1)'])

# counting lemmas for the permutant builder: symbols of the candidate before position j vs in total
for _ch, _nm in (('+', 'plus'), ('-', 'minus'), ('0', 'zero')):
    L('n_sym_strict_' + _nm, {'u': 'str', 'k': 'int'},
      'forall(lambda j: implies(u[j] == "%s", n_sym(u, "%s", 0, j) < n_sym(u, "%s", 0, k)), 0, k)' % (_ch, _ch, _ch), ind='k', base='0')
    L('n_sym_nonneg_' + _nm, {'u': 'str', 'k': 'int'}, 'forall(lambda j: n_sym(u, "%s", 0, j) >= 0, 0, k + 1)' % _ch, ind='k', base='0')

# two boolean sequences that agree on [lo,hi) have the same count there
L('cnt_ext', {'a': 'list[bool]', 'b': 'list[bool]', 'lo': 'int', 'hi': 'int'},
  'cnt(lambda j: a[j], lo, hi) == cnt(lambda j: b[j], lo, hi)', ind='hi', base='lo', requires=['forall(lambda j: a[j] == b[j], lo, hi)'])

# block structure of the candidate strings: counts of a symbol over a stretch that is all / nowhere that symbol, and splitting
L('nsym_split', {'u': 'str', 'c': 'char', 'lo': 'int', 'mid': 'int', 'hi': 'int'},
  'cnt(lambda j: u[j] == c, lo, hi) == cnt(lambda j: u[j] == c, lo, mid) + cnt(lambda j: u[j] == c, mid, hi)', ind='hi', base='mid',
  requires=['lo <= mid', 'mid <= hi'])
L('nsym_all', {'u': 'str', 'c': 'char', 'lo': 'int', 'hi': 'int'}, 'cnt(lambda j: u[j] == c, lo, hi) == hi - lo', ind='hi', base='lo',
  requires=['lo <= hi', 'forall(lambda j: u[j] == c, lo, hi)'])
L('nsym_none', {'u': 'str', 'c': 'char', 'lo': 'int', 'hi': 'int'}, 'cnt(lambda j: u[j] == c, lo, hi) == 0', ind='hi', base='lo',
  requires=['forall(lambda j: Not(u[j] == c), lo, hi)'])

# delta is a mean of squares: never negative (used to show that the first candidate already lifts the running maximum above -1)
L('dform_nonneg', {'s': 'str', 'N': 'int', 'b': 'int', 'k': 'int'}, 'dform_upto(s, N, b, k) >= 0', ind='k', base='0', requires=['b >= 1', 'k <= N - b + 1'])
T('delta_nonneg', {'s': 'str', 'N': 'int'}, 'delta_spec(s, N) >= 0', requires=['N >= 1'],
  uses=['dform_nonneg(s, N, 5, N - 5 + 1)', 'dform_nonneg(s, N, 6, N - 6 + 1)'])

# an uncharged sequence has delta 0 (all blob sigmas and the sequence sigma are 0)
L('cnt_split', {'b': 'list[bool]', 'lo': 'int', 'mid': 'int', 'hi': 'int'},
  'cnt(lambda j: b[j], lo, hi) == cnt(lambda j: b[j], lo, mid) + cnt(lambda j: b[j], mid, hi)', ind='hi', base='mid', requires=['lo <= mid', 'mid <= hi'])
L('cnt_nonneg', {'b': 'list[bool]', 'lo': 'int', 'hi': 'int'}, 'cnt(lambda j: b[j], lo, hi) >= 0', ind='hi', base='lo')
_PB = 'mkseq(lambda j: isin(s[j], "KR+"), N, "bool")'
_NB = 'mkseq(lambda j: isin(s[j], "DE-"), N, "bool")'
L('dform_uncharged', {'s': 'str', 'N': 'int', 'b': 'int', 'k': 'int'}, 'dform_upto(s, N, b, k) == 0', ind='k', base='0',
  requires=['b >= 1', 'k <= N - b + 1', 'npos(s, 0, N) == 0', 'nneg(s, 0, N) == 0'],
  uses=['cnt_split(%s, 0, k - 1, N)' % _PB, 'cnt_split(%s, k - 1, k - 1 + b, N)' % _PB, 'cnt_nonneg(%s, 0, k - 1)' % _PB, 'cnt_nonneg(%s, k - 1, k - 1 + b)' % _PB,
        'cnt_nonneg(%s, k - 1 + b, N)' % _PB,
        'cnt_split(%s, 0, k - 1, N)' % _NB, 'cnt_split(%s, k - 1, k - 1 + b, N)' % _NB, 'cnt_nonneg(%s, 0, k - 1)' % _NB, 'cnt_nonneg(%s, k - 1, k - 1 + b)' % _NB,
        'cnt_nonneg(%s, k - 1 + b, N)' % _NB])
T('delta_uncharged', {'s': 'str', 'N': 'int'}, 'delta_spec(s, N) == 0', requires=['N >= 1', 'npos(s, 0, N) == 0', 'nneg(s, 0, N) == 0'],
  uses=['dform_uncharged(s, N, 5, N - 5 + 1)', 'dform_uncharged(s, N, 6, N - 6 + 1)'])

# every position of the filtered word is the rank of some kept character of the source (the filter is onto)
L('n_keep_onto', {'u': 'str', 'k': 'int'},
  'forall(lambda x: exists(lambda j: And(keep_file(u[j]), n_keep(u, 0, j) == x), 0, k), 0, n_keep(u, 0, k))', ind='k', base='0',
  uses=['n_keep_nonneg(u, 0, k - 1)'])
L('n_keep_nonneg_all', {'u': 'str', 'n': 'int'}, 'forall(lambda i: n_keep(u, 0, i) >= 0, 0, n + 1)', ind='n', base='0')

# ----------------------------------------------------------------------------- C05: reversal
# peeling the FIRST element of a count / a blob sum (the sums are defined by peeling the last one; reversal needs the first)
L('npos_first', {'s': 'str', 'lo': 'int', 'hi': 'int'},
  'And(npos(s, lo, hi) == ite(isin(s[lo], "KR+"), 1, 0) + npos(s, lo + 1, hi), nneg(s, lo, hi) == ite(isin(s[lo], "DE-"), 1, 0) + nneg(s, lo + 1, hi))',
  ind='hi', base='lo + 1', requires=['lo + 1 <= hi'])
L('dform_first', {'s': 'str', 'N': 'int', 'b': 'int', 'lo': 'int', 'hi': 'int'},
  'dform_rng(s, N, b, lo, hi) == dform_term(s, N, b, lo) + dform_rng(s, N, b, lo + 1, hi)', ind='hi', base='lo + 1', requires=['lo + 1 <= hi'])
_REV = 'forall(lambda j: charge(t[j]) == charge(s[N - 1 - j]), 0, N)'
L('npos_rev', {'s': 'str', 't': 'str', 'N': 'int', 'lo': 'int', 'hi': 'int'},
  'And(npos(t, lo, hi) == npos(s, N - hi, N - lo), nneg(t, lo, hi) == nneg(s, N - hi, N - lo))', ind='hi', base='lo',
  requires=[_REV, '0 <= lo', 'lo <= hi', 'hi <= N'],
  uses=['npos_first(s, N - hi, N - lo)'])
L('dform_rev', {'s': 'str', 't': 'str', 'N': 'int', 'b': 'int', 'k': 'int'},
  'dform_rng(t, N, b, 0, k) == dform_rng(s, N, b, N - b + 1 - k, N - b + 1)', ind='k', base='0',
  requires=[_REV, 'b >= 1', 'N >= 1', '0 <= k', 'k <= N - b + 1'],
  uses=['npos_rev(s, t, N, 0, N)', 'npos_rev(s, t, N, k - 1, k - 1 + b)', 'dform_first(s, N, b, N - b + 1 - k, N - b + 1)'])
T('C05_delta_reversal', {'s': 'str', 't': 'str', 'N': 'int'}, 'delta_spec(s, N) == delta_spec(t, N)', requires=[_REV, 'N >= 1'],
  uses=['when(N - 5 + 1 >= 0, dform_rev(s, t, N, 5, N - 5 + 1))', 'when(N - 6 + 1 >= 0, dform_rev(s, t, N, 6, N - 6 + 1))'])
T('C05_dmax_reversal', {'s': 'str', 't': 'str', 'N': 'int'}, 'dmax_seq(s, N) == dmax_seq(t, N)', requires=[_REV, 'N >= 1'],
  uses=['npos_rev(s, t, N, 0, N)', 'count_partition(s, 0, N)', 'count_partition(t, 0, N)'])
T('C05_kappa_reversal', {'s': 'str', 't': 'str', 'N': 'int'}, 'kappa_seq(s, N) == kappa_seq(t, N)', requires=[_REV, 'N >= 1'],
  uses=['when(N - 5 + 1 >= 0, dform_rev(s, t, N, 5, N - 5 + 1))', 'when(N - 6 + 1 >= 0, dform_rev(s, t, N, 6, N - 6 + 1))',
        'npos_rev(s, t, N, 0, N)', 'count_partition(s, 0, N)', 'count_partition(t, 0, N)'])

# ----------------------------------------------------------------------------- C03.d: the permutant uses every letter as often as the parent
# counting a letter in a filtered list = counting the letter among the source positions that pass the filter
L('filter_cnt', {'r': 'str', 'u': 'str', 'b': 'list[bool]', 'a': 'char', 'k': 'int'},
  'cnt(lambda x: r[x] == a, 0, cnt(lambda i: b[i], 0, k)) == cnt(lambda j: And(b[j], u[j] == a), 0, k)', ind='k', base='0',
  requires=['forall(lambda j: implies(b[j], r[cnt(lambda i: b[i], 0, j)] == u[j]), 0, k)'], uses=['cnt_nonneg(b, 0, k - 1)'])
# the three charge classes partition the occurrences of a letter
L('class_letter_partition', {'u': 'str', 'a': 'char', 'k': 'int'},
  'cnt(lambda j: And(isin(u[j], "RK"), u[j] == a), 0, k) + cnt(lambda j: And(isin(u[j], "DE"), u[j] == a), 0, k) + '
  'cnt(lambda j: And(Not(isin(u[j], "DERK")), u[j] == a), 0, k) == cnt(lambda j: u[j] == a, 0, k)', ind='k', base='0')

# ----------------------------------------------------------------------------- C20: offsets of the rendered blocks (linear arithmetic with div)
T('render_off_step', {'k': 'int'},
  'render_off(k + 1) == render_off(k) + 30 + ite(k % 10 == 0, 1, 0) + ite(k % 50 == 0, 4, 0)', requires=['k >= 0'])

# ----------------------------------------------------------------------------- C10: links between the profiles and the global parameters
# (the closed forms are the ones the global getters (C02/C04) and the profile functions (C10) are proved to return)
T('C10_link_wN', {'s': 'str', 'N': 'int'},
  'And(win_ncpr(s, 0, N) == toreal(npos(s, 0, N) - nneg(s, 0, N)) / N, win_fcr(s, 0, N) == toreal(npos(s, 0, N) + nneg(s, 0, N)) / N, '
  'win_sigma(s, 0, N) == sigma_seq(s, N), win_hydro(s, 0, N) == res_sum(T_kd_uversky, s, 0, N) / N)', requires=['N >= 1'])
# delta is the mean over the w = 5 and w = 6 sigma profiles of the squared deviation from the global sigma
T('C10_link_delta', {'s': 'str', 'N': 'int'},
  'delta_spec(s, N) == (ite(N - 5 + 1 <= 0, 0, rsum(lambda i: (sigma_seq(s, N) - win_sigma(s, i, 5)) * (sigma_seq(s, N) - win_sigma(s, i, 5)), 0, N - 5 + 1) / toreal(N - 5 + 1)) + '
  'ite(N - 6 + 1 <= 0, 0, rsum(lambda i: (sigma_seq(s, N) - win_sigma(s, i, 6)) * (sigma_seq(s, N) - win_sigma(s, i, 6)), 0, N - 6 + 1) / toreal(N - 6 + 1))) / 2',
  requires=['N >= 1'], uses=['when(N >= 5, sum_scale_5(s, N, N - 5 + 1))', 'when(N >= 6, sum_scale_6(s, N, N - 6 + 1))'])
for _b in (5, 6):
    L('sum_scale_%d' % _b, {'s': 'str', 'N': 'int', 'k': 'int'},
      'dform_upto(s, N, %d, k) == rsum(lambda i: (sigma_seq(s, N) - win_sigma(s, i, %d)) * (sigma_seq(s, N) - win_sigma(s, i, %d)), 0, k) / toreal(N - %d + 1)' % (_b, _b, _b, _b),
      ind='k', base='0', requires=['N >= %d' % _b])

# ----------------------------------------------------------------------------- C11: the Wootton-Federhen value sees only the letter counts of its window
_SAMECNT = 'forall(lambda a: cnt(lambda j: s[j] == alpha[a], i, i + w) == cnt(lambda j: t[j] == alpha[a], k, k + w), 0, length(alpha))'
L('wf_counts_only', {'s': 'str', 't': 'str', 'alpha': 'list[char]', 'i': 'int', 'k': 'int', 'w': 'int', 'upto': 'int'},
  'wf_partial(s, alpha, i, w, upto) == wf_partial(t, alpha, k, w, upto)', ind='upto', base='0', requires=[_SAMECNT, 'w >= 1', 'upto <= length(alpha)'])
T('C11_wf_permutation', {'s': 'str', 't': 'str', 'alpha': 'list[char]', 'i': 'int', 'k': 'int', 'w': 'int'},
  'wf_spec(s, alpha, i, w) == wf_spec(t, alpha, k, w)', requires=[_SAMECNT, 'w >= 1'],
  uses=['wf_counts_only(s, t, alpha, i, k, w, length(alpha))'])
# a window of one repeated letter has entropy 0 (every share is 0 or 1; log_b 1 = 0)
_HOMO = 'forall(lambda j: s[j] == c, i, i + w)'
L('wf_homopolymer', {'s': 'str', 'alpha': 'list[char]', 'c': 'char', 'i': 'int', 'w': 'int', 'upto': 'int'},
  'wf_partial(s, alpha, i, w, upto) == 0', ind='upto', base='0', requires=[_HOMO, 'w >= 1', 'upto <= length(alpha)'],
  uses=['when(alpha[upto - 1] == c, nsym_all(s, alpha[upto - 1], i, i + w))', 'when(Not(alpha[upto - 1] == c), nsym_none(s, alpha[upto - 1], i, i + w))'])
T('C11_wf_homopolymer', {'s': 'str', 'alpha': 'list[char]', 'c': 'char', 'i': 'int', 'w': 'int'},
  'wf_spec(s, alpha, i, w) == 0', requires=[_HOMO, 'w >= 1'], uses=['wf_homopolymer(s, alpha, c, i, w, length(alpha))'])

# ----------------------------------------------------------------------------- C08: why the float comparisons agree with the rational thresholds
# A ratio m/N of integers is either exactly on a threshold (1/4, 7/20) or at least 1/(20 N) away from it - far more than the
# rounding error of one correctly rounded division (relative 2^-53), so for N < 10^13 the float comparison decides like the exact one.
T('C08_threshold_separation', {'m': 'int', 'N': 'int'},
  'And(Or(4 * m == N, absv(toreal(m) / N - Fraction(1, 4)) * (4 * N) >= 1), Or(20 * m == 7 * N, absv(toreal(m) / N - Fraction(7, 20)) * (20 * N) >= 1))',
  requires=['N >= 1', 'm >= 0'])
