"""Contracts: HTML palette setter (C20.b)."""
from .common import SEQ, mk_sequence, AA20
from .tables import HTML_COLOURS

K = SEQ + ':Sequence.'
CONTRACT = {}
LOOPS = {}
SPEC = {}

CANDIDATES = HTML_COLOURS + ['pink', 'Red', '']       # 17 legal names + representative illegal values


def colour_value(it, name):
    """a palette entry: one of the candidate strings, chosen symbolically"""
    import z3
    from pyvc.values import Choice
    k = it.fresh(name, 'int')
    it.assume(z3.And(k.e >= 0, k.e < len(CANDIDATES)))
    return Choice([(k.e == i, c) for i, c in enumerate(CANDIDATES)])


def palette_param(missing=None):
    def build(it, case):
        return {a: colour_value(it, 'col_' + a) for a in AA20 if a != missing}
    return build


def sym_palette(it):
    return {a: colour_value(it, 'pal_' + a) for a in AA20}


def is_colour(v):
    from pyvc.speclib import Or
    return Or(*[v == c for c in HTML_COLOURS])


def palette_valid(d):
    from pyvc.speclib import And
    acc = True
    for a in AA20:
        if a not in d:
            return False
        acc = And(acc, is_colour(d[a]))
    return acc


def palette_of(d):
    """the palette stored for an accepted dictionary: the given colour of each of the 20 residues"""
    return {a: d[a] for a in AA20}


SPEC.update(dict(palette_of=palette_of, palette_valid=palette_valid, is_colour=is_colour, AA20=AA20))


def mk_seq_with_palette(it, case):
    o = mk_sequence()(it, case)
    o.fields['aminoAcidColorMap'] = sym_palette(it)
    return o


mk_seq_with_palette.inv = 'seq_inv(self)'

CONTRACT[K + 'set_HTMLColorResiduePalette'] = dict(
    self=mk_seq_with_palette, no_inv=True, params={'colorDict': palette_param()},
    cases=[dict(params={'colorDict': palette_param()}), dict(params={'colorDict': palette_param(missing='A')}),
           dict(params={'colorDict': palette_param(missing='M')}), dict(params={'colorDict': palette_param(missing='Y')})],
    raises=[('SequenceException', 'Not(palette_valid(colorDict))')],
    modifies=['aminoAcidColorMap'], modifies_on_raise=[],
    ensures=['self.aminoAcidColorMap == palette_of(colorDict)'])
