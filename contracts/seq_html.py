"""Contracts: HTML palette setter (C20.b)."""
from .common import SEQ, mk_sequence, AA20
from .tables import HTML_COLOURS

K = SEQ + ':Sequence.'
CONTRACT = {}
LOOPS = {}
SPEC = {}

CANDIDATES = HTML_COLOURS + ['pink', 'Red', '']       # 17 legal names + representative illegal values


def colour_value(it, name):
    """a palette entry: one of the candidate strings, chosen symbolically"""
    import z3
    from pyvc.values import Choice
    k = it.fresh(name, 'int')
    it.assume(z3.And(k.e >= 0, k.e < len(CANDIDATES)))
    return Choice([(k.e == i, c) for i, c in enumerate(CANDIDATES)])


def palette_param(missing=None):
    def build(it, case):
        return {a: colour_value(it, 'col_' + a) for a in AA20 if a != missing}
    return build


def sym_palette(it):
    return {a: colour_value(it, 'pal_' + a) for a in AA20}


def is_colour(v):
    from pyvc.speclib import Or
    return Or(*[v == c for c in HTML_COLOURS])


def palette_valid(d):
    from pyvc.speclib import And
    acc = True
    for a in AA20:
        if a not in d:
            return False
        acc = And(acc, is_colour(d[a]))
    return acc


def palette_of(d):
    """the palette stored for an accepted dictionary: the given colour of each of the 20 residues"""
    return {a: d[a] for a in AA20}


SPEC.update(dict(palette_of=palette_of, palette_valid=palette_valid, is_colour=is_colour, AA20=AA20))


def mk_seq_with_palette(it, case):
    o = mk_sequence()(it, case)
    o.fields['aminoAcidColorMap'] = sym_palette(it)
    return o


mk_seq_with_palette.inv = 'seq_inv(self)'

CONTRACT[K + 'set_HTMLColorResiduePalette'] = dict(
    self=mk_seq_with_palette, no_inv=True, params={'colorDict': palette_param()},
    cases=[dict(params={'colorDict': palette_param()}), dict(params={'colorDict': palette_param(missing='A')}),
           dict(params={'colorDict': palette_param(missing='M')}), dict(params={'colorDict': palette_param(missing='Y')})],
    raises=[('SequenceException', 'Not(palette_valid(colorDict))')],
    modifies=['aminoAcidColorMap'], modifies_on_raise=[],
    ensures=['self.aminoAcidColorMap == palette_of(colorDict)'])


# ----------------------------------------------------------------------------- C20.a: rendering
# Colour names are abstracted to ONE symbol each: the palette of the receiver maps residue a to the macro character
# COLOUR_BASE + index(a), a code point no real character has.  The rendered text is then a sequence over characters and
# colour symbols; its concretisation replaces each colour symbol by the colour name stored for that residue.
from .tables import HTML_OPEN, HTML_CLOSE, HTML_SPAN, HTML_BREAK
COLOUR_BASE = 0x200000


def macro_palette(it):
    import z3
    from pyvc.values import SChar
    return {a: SChar(z3.IntVal(COLOUR_BASE + i)) for i, a in enumerate(AA20)}


def mk_seq_render(it, case):
    o = mk_sequence(alphabet='aa')(it, case)
    o.fields['aminoAcidColorMap'] = macro_palette(it)
    return o


mk_seq_render.inv = 'seq_inv(self)'


def pal_at(pal, c):
    from pyvc.speclib import ite
    r = pal[AA20[-1]]
    for a in reversed(AA20[:-1]):
        r = (lambda a, r: ite(c == a, lambda: pal[a], lambda: r))(a, r)
    return r


def _lit(R, o, text):
    from pyvc.speclib import And
    return And(*[R[o + i] == ch for i, ch in enumerate(text)])


_SPAN_LEN = len(HTML_SPAN[0]) + 1 + len(HTML_SPAN[1]) + 1 + len(HTML_SPAN[2])


def render_off(j):
    """offset of the block of residue j: the opening text, j spans, one space per started block of 10, one break per started block of 50"""
    return len(HTML_OPEN) + _SPAN_LEN * j + (j + 9) // 10 + len(HTML_BREAK) * ((j + 49) // 50)


def render_block_end(j):
    """one past the last character of block j, written with the same terms as the positions inside the block"""
    from pyvc.speclib import ite
    return render_off(j) + ite(j % 10 == 0, lambda: 1, lambda: 0) + ite(j % 50 == 0, lambda: len(HTML_BREAK), lambda: 0) + _SPAN_LEN


def render_block_ok(R, j, s, pal):
    from pyvc.speclib import And, implies, ite
    o = render_off(j)
    sp, br = (j % 10 == 0), (j % 50 == 0)
    o1 = o + ite(sp, lambda: 1, lambda: 0)
    o2 = o1 + ite(br, lambda: len(HTML_BREAK), lambda: 0)
    a, b, c = HTML_SPAN
    return And(implies(sp, R[o] == ' '), implies(br, _lit(R, o1, HTML_BREAK)), _lit(R, o2, a), R[o2 + len(a)] == pal_at(pal, s[j]),
               _lit(R, o2 + len(a) + 1, b), R[o2 + len(a) + 1 + len(b)] == s[j], _lit(R, o2 + len(a) + 2 + len(b), c))


def render_ok(R, s, k, pal, closed):
    """R renders the first k residues of s: every residue once, in order, in a span coloured by its palette entry, a space opening
    every block of 10 and a line break opening every block of 50; nothing else but the opening (and, if closed, closing) tag"""
    from pyvc.speclib import And, forall, length, as_seq
    R, s = as_seq(R), as_seq(s)
    n = render_off(k) + (len(HTML_CLOSE) if closed else 0)
    body_end = render_off(k)
    # every block ends inside the text written so far (stated per block, so that appending never needs a monotonicity argument)
    return And(length(R) == n, _lit(R, 0, HTML_OPEN), forall(lambda j: And(render_block_end(j) <= body_end, render_block_ok(R, j, s, pal)), 0, k),
               (_lit(R, render_off(k), HTML_CLOSE) if closed else True))


SPEC.update(dict(render_ok=render_ok, pal_at=pal_at, render_off=render_off))

CONTRACT[K + 'get_HTMLColorString'] = dict(
    self=mk_seq_render, raises=[], modifies=[], returns='str',
    ensures=['render_ok(result, self.seq, self.len, self.aminoAcidColorMap, True)'])
LOOPS[K + 'get_HTMLColorString'] = {0: dict(index='k', types={'colorString': 'str'}, lemmas=['render_off_step(k)'], invariant=[
    'count == k - 1', 'render_ok(colorString, self.seq, k, self.aminoAcidColorMap, False)'])}

assert all(c.isalpha() for n in HTML_COLOURS for c in n), 'a colour name with markup characters would break the colour-symbol abstraction'
