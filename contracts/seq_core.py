"""Contracts: counts, fractions, sigma, deltaForm, delta (C02, C04 count part)."""
from .common import SEQ, mk_sequence

K = SEQ + ':Sequence.'
CONTRACT = {}
LOOPS = {}

CONTRACT[K + 'countPos'] = dict(self=mk_sequence(), ensures=['result == npos(self.seq, 0, self.len)'], modifies=[])
CONTRACT[K + 'countNeg'] = dict(self=mk_sequence(), ensures=['result == nneg(self.seq, 0, self.len)'], modifies=[])
CONTRACT[K + 'countNeut'] = dict(self=mk_sequence(), ensures=['result == nneut(self.seq, 0, self.len)'], modifies=[])
CONTRACT[K + 'Fplus'] = dict(self=mk_sequence(), ensures=['result == toreal(npos(self.seq, 0, self.len)) / self.len'], modifies=[])
CONTRACT[K + 'Fminus'] = dict(self=mk_sequence(), ensures=['result == toreal(nneg(self.seq, 0, self.len)) / self.len'], modifies=[])
CONTRACT[K + 'sigma'] = dict(self=mk_sequence(), ensures=['result == sigma_seq(self.seq, self.len)'], modifies=[],
                             lemmas=['count_partition(self.seq, 0, self.len)'])
CONTRACT[K + 'deltaForm'] = dict(self=mk_sequence(), params={'bloblen': 'int'}, requires=['bloblen >= 1'],
                                 ensures=['result == dform(self.seq, self.len, bloblen)'], modifies=[])
LOOPS[K + 'deltaForm'] = {0: dict(index='i', invariant=['ans == dform_upto(self.seq, self.len, bloblen, i)'])}
CONTRACT[K + 'delta'] = dict(self=mk_sequence(), ensures=['result == delta_spec(self.seq, self.len)'], modifies=[])

# ----------------------------------------------------------------------------- C09.a: titration sum
CONTRACT[K + 'charge_at_pH'] = dict(
    self=mk_sequence(), params={'pH': 'real', 'mode': ('const', ''), 'normalize': ('const', False)},
    cases=[dict(params={'mode': ('const', ''), 'normalize': ('const', False)}),
           dict(params={'mode': ('const', 'TOTAL'), 'normalize': ('const', False)}),
           dict(params={'mode': ('const', ''), 'normalize': ('const', True)})],
    ensures=["result == (hh_sum(self.seq, pH, (1 if mode == 'TOTAL' else -1), 0, self.len) if not normalize else "
             "(0 if n_titratable(self.seq, 0, self.len) == 0 else hh_sum(self.seq, pH, (1 if mode == 'TOTAL' else -1), 0, self.len) / toreal(n_titratable(self.seq, 0, self.len))))"],
    modifies=[])
LOOPS[K + 'charge_at_pH'] = {0: dict(index='k', invariant=[
    "total == hh_sum(self.seq, pH, (1 if mode == 'TOTAL' else -1), 0, k)",
    "countable_residues == n_titratable(self.seq, 0, k)"], types={'total': 'real'})}

_FR = "(toreal(npos(self.seq, 0, self.len) %s nneg(self.seq, 0, self.len)) / self.len)"
CONTRACT[K + 'FCR'] = dict(
    self=mk_sequence(), params={'pH': 'none'}, cases=[dict(params={'pH': 'none'}), dict(params={'pH': 'real'})],
    ensures=["result == (" + _FR % '+' + " if pH is None else hh_sum(self.seq, pH, 1, 0, self.len) / self.len)"], modifies=[])
CONTRACT[K + 'NCPR'] = dict(
    self=mk_sequence(), params={'pH': 'none'}, cases=[dict(params={'pH': 'none'}), dict(params={'pH': 'real'})],
    ensures=["result == (" + _FR % '-' + " if pH is None else hh_sum(self.seq, pH, -1, 0, self.len) / self.len)"], modifies=[])
CONTRACT[K + 'mean_net_charge'] = dict(
    self=mk_sequence(), params={'pH': 'none'}, cases=[dict(params={'pH': 'none'}), dict(params={'pH': 'real'})],
    ensures=["result == absv(" + _FR % '-' + " if pH is None else hh_sum(self.seq, pH, -1, 0, self.len) / self.len)"], modifies=[])
CONTRACT[K + 'FER'] = dict(
    self=mk_sequence(), params={'pH': 'none'}, cases=[dict(params={'pH': 'none'}), dict(params={'pH': 'real'})],
    ensures=["result == ((toreal(npos(self.seq, 0, self.len) + nneg(self.seq, 0, self.len) + n_pro(self.seq, 0, self.len)) / self.len) if pH is None "
             "else (hh_sum(self.seq, pH, 1, 0, self.len) + n_pro(self.seq, 0, self.len)) / self.len)"], modifies=[])

# ----------------------------------------------------------------------------- C07
CONTRACT[K + 'sequence_charge_decoration'] = dict(self=mk_sequence(), ensures=['result == scd_spec(self.seq, self.len)'], modifies=[])
LOOPS[K + 'sequence_charge_decoration'] = {
    0: dict(index='m', invariant=['total == scd_outer(self.seq, m)'], types={'total': 'real'}),
    1: dict(index='n', invariant=['total == scd_outer(self.seq, m) + scd_inner(self.seq, m, n)'], types={'total': 'real'}),
}

# ----------------------------------------------------------------------------- C08
CONTRACT[K + 'phasePlotRegion'] = dict(
    self=mk_sequence(),
    ensures=['result == region_spec(npos(self.seq, 0, self.len), nneg(self.seq, 0, self.len), self.len)',
             'Or(result == 1, result == 2, result == 3, result == 4, result == 5)'],
    raises=[], modifies=[],
    lemmas=['count_partition(self.seq, 0, self.len)', 'npos_nonneg(self.seq, 0, self.len)', 'nneg_nonneg(self.seq, 0, self.len)',
            'nneut_nonneg(self.seq, 0, self.len)'])
CONTRACT[K + 'phasePlotAnnotation'] = dict(
    self=mk_sequence(), modifies=[], raises=[],
    ensures=['annotation_ok(result, region_spec(npos(self.seq, 0, self.len), nneg(self.seq, 0, self.len), self.len))'])

# ----------------------------------------------------------------------------- C09.d: isoelectric point
CONTRACT[K + 'isoelectric_point'] = dict(
    self=mk_sequence(), modifies=[],
    may_raise=[('SequenceException', 'True')],     # that the search never gives up is NOT proved (bounded check only)
    ensures=['absv(charge_norm(self.seq, self.len, result)) <= 0.02',
             'implies(n_titratable(self.seq, 0, self.len) == 0, result == 7.0)'])
LOOPS[K + 'isoelectric_point'] = {0: dict(
    types={'protein_charge': 'real', 'min_pH': 'real', 'max_pH': 'real', 'mid_pH': 'real'},
    invariant=['And(0 <= breakcount, breakcount <= 19)', 'And(0 <= errorcount, errorcount <= 10)',
               'implies(n_titratable(self.seq, 0, self.len) == 0, And(min_pH == 0, max_pH == 14, breakcount == 0))'],
    transition=['bisect_step(pre("min_pH"), pre("max_pH"), pre("breakcount"), pre("protein_charge"), min_pH, max_pH, mid_pH, protein_charge)',
                'protein_charge == charge_norm(self.seq, self.len, mid_pH)',
                'breakcount == ite(pre("breakcount") + 1 == 20, lambda: 0, lambda: pre("breakcount") + 1)',
                'errorcount == ite(pre("breakcount") + 1 == 20, lambda: pre("errorcount") + 1, lambda: pre("errorcount"))'],
    variant='(10 - errorcount, 20 - breakcount)')}
