"""Contracts: counts, fractions, sigma, deltaForm, delta (C02, C04 count part)."""
from .common import SEQ, mk_sequence

K = SEQ + ':Sequence.'
CONTRACT = {}
LOOPS = {}

CONTRACT[K + 'countPos'] = dict(self=mk_sequence(), ensures=['result == npos(self.seq, 0, self.len)'], modifies=[])
CONTRACT[K + 'countNeg'] = dict(self=mk_sequence(), ensures=['result == nneg(self.seq, 0, self.len)'], modifies=[])
CONTRACT[K + 'countNeut'] = dict(self=mk_sequence(), ensures=['result == nneut(self.seq, 0, self.len)'], modifies=[])
CONTRACT[K + 'Fplus'] = dict(self=mk_sequence(), ensures=['result == toreal(npos(self.seq, 0, self.len)) / self.len'], modifies=[])
CONTRACT[K + 'Fminus'] = dict(self=mk_sequence(), ensures=['result == toreal(nneg(self.seq, 0, self.len)) / self.len'], modifies=[])
CONTRACT[K + 'sigma'] = dict(self=mk_sequence(), ensures=['result == sigma_seq(self.seq, self.len)'], modifies=[],
                             lemmas=['count_partition(self.seq, 0, self.len)'])
CONTRACT[K + 'deltaForm'] = dict(self=mk_sequence(), params={'bloblen': 'int'}, requires=['bloblen >= 1'],
                                 ensures=['result == dform(self.seq, self.len, bloblen)'], modifies=[])
LOOPS[K + 'deltaForm'] = {0: dict(index='i', invariant=['ans == dform_upto(self.seq, self.len, bloblen, i)'])}
CONTRACT[K + 'delta'] = dict(self=mk_sequence(), ensures=['result == delta_spec(self.seq, self.len)'], modifies=[])
