"""Contracts: phosphosites (C16)."""
from .common import SEQ, mk_sequence

K = SEQ + ':Sequence.'
CONTRACT = {}
LOOPS = {}


def mk_seq_phos(nsites=None, **kw):
    """receiver whose phosphosite list is symbolic (any length, or a concrete number of symbolic sites) and satisfies its invariant"""
    base = mk_sequence(alphabet='aa', **kw)

    def build(it, case):
        import z3
        o = base(it, case)
        if nsites is None:
            L = it.fresh_seq('self.phosphosites', 'list', 'int')
        else:
            L = [it.fresh('site%d' % i, 'int') for i in range(nsites)]
        o.fields['phosphosites'] = L
        v = it.eval_spec_value('phos_inv(L, s, n)', dict(L=L, s=o.fields['seq'], n=o.fields['len']))
        it.assume(v)
        return o
    build.inv = 'And(seq_inv(self), phos_inv(self.phosphosites, self.seq, self.len))'
    return build


CONTRACT[K + 'setPhosPhoSites'] = dict(
    self=mk_seq_phos(), params={'listOfPsites': 'list[int]'},
    cases=[dict(params={'listOfPsites': 'list[int]'}), dict(params={'listOfPsites': 'tuple[int]'}),
           dict(params={'listOfPsites': 'int'}, single=True)],
    raises=[], modifies=['phosphosites'],
    ensures=['sites_after(self.phosphosites, old(self.phosphosites), (listOfPsites if not isinstance(listOfPsites, int) else [listOfPsites]), '
             'length(listOfPsites if not isinstance(listOfPsites, int) else [listOfPsites]), self.seq, self.len)'])
LOOPS[K + 'setPhosPhoSites'] = {0: dict(index='k', types={'self.phosphosites': 'list[int]'}, invariant=[
    'sites_after(self.phosphosites, old(self.phosphosites), listOfPsites, k, self.seq, self.len)'])}

CONTRACT[K + 'clear_phosphosites'] = dict(self=mk_seq_phos(), raises=[], modifies=['phosphosites'], ensures=['length(self.phosphosites) == 0'])

CONTRACT[K + 'get_phosphosites'] = dict(
    self=mk_seq_phos(), raises=[], modifies=[], returns='list[int]',
    ensures=['length(result) == length(self.phosphosites)', 'forall(lambda i: result[i] == self.phosphosites[i] + 1, 0, length(result))'])
LOOPS[K + 'get_phosphosites'] = {0: dict(index='k', types={'newSites': 'list[int]'}, invariant=[
    'length(newSites) == k', 'forall(lambda i: newSites[i] == self.phosphosites[i] + 1, 0, k)'])}

_PH = 'lambda j, c: ite(member(j, self.phosphosites, length(self.phosphosites)), "E", c)'
CONTRACT[K + 'get_phosphosequence'] = dict(
    self=mk_seq_phos(), raises=[], modifies=[], returns='str',
    ensures=['length(result) == self.len',
             'forall(lambda j: result[j] == ite(member(j, self.phosphosites, length(self.phosphosites)), "E", self.seq[j]), 0, self.len)'])
LOOPS[K + 'get_phosphosequence'] = {0: dict(index='k', types={'pseq': 'str'}, invariant=[
    'length(pseq) == k', 'idx == k',
    'forall(lambda j: pseq[j] == ite(member(j, self.phosphosites, length(self.phosphosites)), "E", self.seq[j]), 0, k)'])}

CONTRACT[K + 'kappa_at_maxPhos'] = dict(
    self=mk_seq_phos(), requires=['dmax_inv(self)'], raises=[], modifies=['dmax', 'seqDeltaMax'], returns='real',
    ghost_locals={'newseq': 'list[char]'},       # at call sites the substituted sequence is a ghost witness
    field_types={'dmax': 'real', 'seqDeltaMax': 'opaque'},
    ensures=['implies(length(self.phosphosites) == 0, result == kappa_seq(self.seq, self.len))',
             'implies(length(self.phosphosites) > 0, And(length(local("newseq", "")) == self.len, '
             'forall(lambda j: local("newseq", "")[j] == ite(member(j, self.phosphosites, length(self.phosphosites)), "E", self.seq[j]), 0, self.len), '
             'result == kappa_seq(upper_seq(local("newseq", "")), length(local("newseq", "")))))'])
LOOPS[K + 'kappa_at_maxPhos'] = {0: dict(index='k', types={'newseq': 'list[char]'}, invariant=[
    'length(newseq) == self.len',
    'forall(lambda j: newseq[j] == ite(member(j, self.phosphosites, k), "E", self.seq[j]), 0, self.len)'])}

CONTRACT[K + 'calculateNumberDifferentPhosphoStates'] = dict(self=mk_seq_phos(nsites=2), raises=[], modifies=[],
                                                             cases=[dict(self=mk_seq_phos(nsites=k)) for k in (0, 1, 2, 3, 4, 5)],
                                                             ensures=['result == 2 ** length(self.phosphosites)'])
CONTRACT[K + 'calculateKappaDistOfPhosphoStates'] = dict(
    self=mk_seq_phos(nsites=1, dmax='unset'), cases=[dict(self=mk_seq_phos(nsites=k, dmax='unset')) for k in (0, 1, 2, 3)],
    raises=[], modifies=[], returns=lambda it, env: _dist_shape(it, env['self'].fields['phosphosites']),
    ensures=['dist_ok(result, self.seq, self.len, self.phosphosites)'])


def _dist_shape(it, sites):
    """call sites: a list of 2^k fresh entries (six reals and the status tuple) constrained by the postcondition"""
    import itertools
    return [tuple(it.fresh('dist%d.%d' % (n, j), 'real') for j in range(6)) + (bits,)
            for n, bits in enumerate(itertools.product('01', repeat=len(sites)))]


# all S/T/Y positions (1-based, increasing)
CONTRACT[K + 'get_STY_residues'] = dict(
    self=mk_seq_phos(), raises=[], modifies=[], returns='list[int]',
    ensures=['sty_list_ok(result, self.seq, self.len)'])
LOOPS[K + 'get_STY_residues'] = {0: dict(index='k', types={'sites': 'list[int]'}, invariant=['idx == k + 1', 'sty_list_ok(sites, self.seq, k)'])}

# four sites (16 phosphostates): thorough tier only
CONTRACT[K + 'calculateKappaDistOfPhosphoStates#four'] = dict(CONTRACT[K + 'calculateKappaDistOfPhosphoStates'],
                                                             cases=[dict(self=mk_seq_phos(nsites=4, dmax='unset'))])
CONTRACT[K + 'calculateKappaDistOfPhosphoStates#five'] = dict(CONTRACT[K + 'calculateKappaDistOfPhosphoStates'],
                                                             cases=[dict(self=mk_seq_phos(nsites=5, dmax='unset'))])
