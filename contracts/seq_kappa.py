"""Contracts: deltaMax (value), kappa, Omega, Omega_seq, kappa_X (C01, C03 value part, C06)."""
from .common import SEQ, mk_sequence

K = SEQ + ':Sequence.'
CONTRACT = {}
LOOPS = {}

_P, _N, _Z = 'npos(self.seq, 0, self.len)', 'nneg(self.seq, 0, self.len)', 'nneut(self.seq, 0, self.len)'
_CNT = ['count_partition(self.seq, 0, self.len)', 'npos_nonneg(self.seq, 0, self.len)', 'nneg_nonneg(self.seq, 0, self.len)',
        'nneut_nonneg(self.seq, 0, self.len)']

# value path of the delta-max search (returnSeqDeltaMax False); cache empty or filled with the right value
CONTRACT[K + 'deltaMax'] = dict(
    self=mk_sequence(), params={'returnSeqDeltaMax': ('const', False)},
    cases=[dict(self=mk_sequence(dmax='unset'), tag='cache-empty'),
           dict(requires=['self.dmax != -1', 'self.dmax == dmax_seq(self.seq, self.len)'], tag='cache-filled')],
    requires=['Or(self.dmax == -1, self.dmax == dmax_seq(self.seq, self.len))', 'returnSeqDeltaMax == False'],
    raises=[], modifies=['dmax', 'seqDeltaMax'], lemmas=_CNT,
    ensures=['result == dmax_seq(self.seq, self.len)', 'self.dmax == result'])
_D1 = "D_of(cat(rep('0', j), rep(chargeV, ncharge), rep('0', nneuts - j)))"
_D1b = "D_of(cat(rep(chargeV, j), rep('0', nneuts), rep(chargeV, ncharge - j)))"
LOOPS[K + 'deltaMax'] = {
    0: dict(index='position', types={'self.dmax': 'real'}, invariant=["self.dmax == rmax(lambda j: %s, 0, position)" % _D1]),
    1: dict(index='position', types={'self.dmax': 'real'}, invariant=["self.dmax == rmax(lambda j: %s, 0, position)" % _D1b]),
    2: dict(index='position', types={'self.dmax': 'real'}, invariant=[
        "self.dmax == rmax(lambda j: D_of(cat(rep('+', j), rep('-', nNeg), rep('+', nPos - j))), 0, position)"]),
    3: dict(index='position', types={'self.dmax': 'real'}, invariant=[
        "self.dmax == rmax(lambda j: D_of(cat(rep('-', j), rep('+', nPos), rep('-', nNeg - j))), 0, position)"]),
    4: dict(index='startNeuts', types={'self.dmax': 'real'}, invariant=[
        "self.dmax == dmax_many_neutrals_upto(%s, %s, nneuts, startNeuts)" % (_P, _N)]),
    5: dict(index='endNeuts', types={'self.dmax': 'real'}, invariant=[
        "self.dmax == maxv(dmax_many_neutrals_upto(%s, %s, nneuts, startNeuts), "
        "rmax(lambda e: D_of(cand_three(%s, %s, nneuts, startNeuts, nneuts - startNeuts - e)), 0, endNeuts))" % (_P, _N, _P, _N)]),
    6: dict(index='midNeuts', types={'self.dmax': 'real'}, invariant=[
        "self.dmax == dmax_few_neutrals_upto(%s, %s, nneuts, midNeuts)" % (_P, _N)]),
    7: dict(index='startNeuts', types={'self.dmax': 'real'}, invariant=[
        "self.dmax == maxv(dmax_few_neutrals_upto(%s, %s, nneuts, midNeuts), "
        "rmax(lambda s: D_of(cand_three(%s, %s, nneuts, s, midNeuts)), 0, startNeuts))" % (_P, _N, _P, _N)]),
}

CONTRACT[K + 'deltaMax']['requires'] = ['dmax_inv(self)', 'returnSeqDeltaMax == False']
CONTRACT[K + 'deltaMax']['field_types'] = {'dmax': 'real', 'seqDeltaMax': 'opaque'}

CONTRACT[K + 'kappa'] = dict(
    self=mk_sequence(), requires=['dmax_inv(self)'], raises=[], modifies=['dmax', 'seqDeltaMax'],
    field_types={'dmax': 'real', 'seqDeltaMax': 'opaque'},
    ensures=['result == kappa_seq(self.seq, self.len)', 'self.dmax == dmax_seq(self.seq, self.len)'])

_OM = 'lambda c: ite(isin(c, "PEDKR"), "%s", "%s")'
CONTRACT[K + 'Omega_seq'] = dict(
    self=mk_sequence(), raises=[], modifies=[], returns='str',
    ensures=['recoded(result, self.seq, self.len, %s)' % (_OM % ('X', 'O'))])
LOOPS[K + 'Omega_seq'] = {0: dict(index='k', types={'newseq': 'str'}, invariant=[
    'recoded(newseq, self.seq, k, %s)' % (_OM % ('X', 'O'))])}

CONTRACT[K + 'Omega'] = dict(
    self=mk_sequence(), raises=[], modifies=[], returns='real',
    ensures=['recoded(local("newseq"), self.seq, self.len, %s)' % (_OM % ('E', 'K')),
             'result == kappa_seq(upper_seq(local("newseq")), length(local("newseq")))'])
LOOPS[K + 'Omega'] = {0: dict(index='k', types={'newseq': 'str'}, invariant=['recoded(newseq, self.seq, k, %s)' % (_OM % ('E', 'K'))])}

# kappa_X: one group / two groups (members one-character strings), groups valid -> recode, kappa of the recoded string
_ONE = 'lambda c: ite(in_group(c, grp1), "E", "K")'
_TWO = 'lambda c: ite(in_group(c, grp1), "E", ite(in_group(c, grp2), "K", "G"))'
CONTRACT[K + 'kappa_X'] = dict(
    self=mk_sequence(), params={'grp1': 'list[char]', 'grp2': ('const', None)},
    cases=[dict(params={'grp2': ('const', None)}, ensures=['recoded(local("newseq"), self.seq, self.len, %s)' % _ONE]),
           dict(params={'grp2': (lambda it, case: [])}, ensures=['recoded(local("newseq"), self.seq, self.len, %s)' % _ONE]),
           dict(params={'grp2': 'list[char]'}, requires=['length(grp2) >= 1'],
                ensures=['recoded(local("newseq"), self.seq, self.len, %s)' % _TWO])],
    raises=[('SequenceException', 'Or(Not(group_valid(grp1)), And(Not(grp2 is None), Not(group_valid(grp2 if grp2 is not None else []))))')],
    modifies=[], returns='real',
    ensures=['result == kappa_seq(upper_seq(local("newseq")), length(local("newseq")))'])
LOOPS[K + 'kappa_X'] = {
    0: dict(index='k', types={'newseq': 'str'}, invariant=['recoded(newseq, self.seq, k, %s)' % _TWO.replace('grp1', 'old(grp1)').replace('grp2', 'old(grp2)')]),
    1: dict(index='k', types={'newseq': 'str'}, invariant=['recoded(newseq, self.seq, k, %s)' % _ONE.replace('grp1', 'old(grp1)')]),
}
