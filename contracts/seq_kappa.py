"""Contracts: deltaMax (value), kappa, Omega, Omega_seq, kappa_X (C01, C03 value part, C06)."""
from .common import SEQ, mk_sequence

K = SEQ + ':Sequence.'
CONTRACT = {}
LOOPS = {}

_P, _N, _Z = 'npos(self.seq, 0, self.len)', 'nneg(self.seq, 0, self.len)', 'nneut(self.seq, 0, self.len)'
_CNT = ['count_partition(self.seq, 0, self.len)', 'npos_nonneg(self.seq, 0, self.len)', 'nneg_nonneg(self.seq, 0, self.len)',
        'nneut_nonneg(self.seq, 0, self.len)']

# value path of the delta-max search (returnSeqDeltaMax False); cache empty or filled with the right value
CONTRACT[K + 'deltaMax'] = dict(
    self=mk_sequence(), params={'returnSeqDeltaMax': ('const', False)},
    cases=[dict(self=mk_sequence(dmax='unset'), tag='cache-empty'),
           dict(requires=['self.dmax != -1', 'self.dmax == dmax_seq(self.seq, self.len)'], tag='cache-filled')],
    requires=['Or(self.dmax == -1, self.dmax == dmax_seq(self.seq, self.len))', 'returnSeqDeltaMax == False'],
    raises=[], modifies=['dmax', 'seqDeltaMax'], lemmas=_CNT,
    ensures=['result == dmax_seq(self.seq, self.len)', 'self.dmax == result'])
_D1 = "D_of(cat(rep('0', j), rep(chargeV, ncharge), rep('0', nneuts - j)))"
_D1b = "D_of(cat(rep(chargeV, j), rep('0', nneuts), rep(chargeV, ncharge - j)))"
LOOPS[K + 'deltaMax'] = {
    0: dict(index='position', types={'self.dmax': 'real'}, invariant=["self.dmax == rmax(lambda j: %s, 0, position)" % _D1]),
    1: dict(index='position', types={'self.dmax': 'real'}, invariant=["self.dmax == rmax(lambda j: %s, 0, position)" % _D1b]),
    2: dict(index='position', types={'self.dmax': 'real'}, invariant=[
        "self.dmax == rmax(lambda j: D_of(cat(rep('+', j), rep('-', nNeg), rep('+', nPos - j))), 0, position)"]),
    3: dict(index='position', types={'self.dmax': 'real'}, invariant=[
        "self.dmax == rmax(lambda j: D_of(cat(rep('-', j), rep('+', nPos), rep('-', nNeg - j))), 0, position)"]),
    4: dict(index='startNeuts', types={'self.dmax': 'real'}, invariant=[
        "self.dmax == dmax_many_neutrals_upto(%s, %s, nneuts, startNeuts)" % (_P, _N)]),
    5: dict(index='endNeuts', types={'self.dmax': 'real'}, invariant=[
        "self.dmax == maxv(dmax_many_neutrals_upto(%s, %s, nneuts, startNeuts), "
        "rmax(lambda e: D_of(cand_three(%s, %s, nneuts, startNeuts, nneuts - startNeuts - e)), 0, endNeuts))" % (_P, _N, _P, _N)]),
    6: dict(index='midNeuts', types={'self.dmax': 'real'}, invariant=[
        "self.dmax == dmax_few_neutrals_upto(%s, %s, nneuts, midNeuts)" % (_P, _N)]),
    7: dict(index='startNeuts', types={'self.dmax': 'real'}, invariant=[
        "self.dmax == maxv(dmax_few_neutrals_upto(%s, %s, nneuts, midNeuts), "
        "rmax(lambda s: D_of(cand_three(%s, %s, nneuts, s, midNeuts)), 0, startNeuts))" % (_P, _N, _P, _N)]),
}

CONTRACT[K + 'deltaMax']['requires'] = ['dmax_inv(self)', 'returnSeqDeltaMax == False']
CONTRACT[K + 'deltaMax']['field_types'] = {'dmax': 'real', 'seqDeltaMax': 'opaque'}

CONTRACT[K + 'kappa'] = dict(
    self=mk_sequence(), requires=['dmax_inv(self)'], raises=[], modifies=['dmax', 'seqDeltaMax'],
    field_types={'dmax': 'real', 'seqDeltaMax': 'opaque'},
    ensures=['result == kappa_seq(self.seq, self.len)', 'self.dmax == dmax_seq(self.seq, self.len)'])

_OM = 'lambda c: ite(isin(c, "PEDKR"), "%s", "%s")'
CONTRACT[K + 'Omega_seq'] = dict(
    self=mk_sequence(), raises=[], modifies=[], returns='str',
    ensures=['recoded(result, self.seq, self.len, %s)' % (_OM % ('X', 'O'))])
LOOPS[K + 'Omega_seq'] = {0: dict(index='k', types={'newseq': 'str'}, invariant=[
    'recoded(newseq, self.seq, k, %s)' % (_OM % ('X', 'O'))])}

CONTRACT[K + 'Omega'] = dict(
    self=mk_sequence(), raises=[], modifies=[], returns='real', ghost_locals={'newseq': 'str'},
    ensures=['recoded(local("newseq"), self.seq, self.len, %s)' % (_OM % ('E', 'K')),
             'result == kappa_seq(upper_seq(local("newseq")), length(local("newseq")))'])
LOOPS[K + 'Omega'] = {0: dict(index='k', types={'newseq': 'str'}, invariant=['recoded(newseq, self.seq, k, %s)' % (_OM % ('E', 'K'))])}

# kappa_X: one group / two groups (members one-character strings), groups valid -> recode, kappa of the recoded string
_ONE = 'lambda c: ite(in_group(c, grp1), "E", "K")'
_TWO = 'lambda c: ite(in_group(c, grp1), "E", ite(in_group(c, grp2), "K", "G"))'
CONTRACT[K + 'kappa_X'] = dict(
    self=mk_sequence(), params={'grp1': 'list[char]', 'grp2': ('const', None)},
    cases=[dict(params={'grp2': ('const', None)}, ensures=['recoded(local("newseq"), self.seq, self.len, %s)' % _ONE]),
           dict(params={'grp2': (lambda it, case: [])}, ensures=['recoded(local("newseq"), self.seq, self.len, %s)' % _ONE]),
           dict(params={'grp2': 'list[char]'}, requires=['length(grp2) >= 1'],
                ensures=['recoded(local("newseq"), self.seq, self.len, %s)' % _TWO])],
    raises=[('SequenceException', 'Or(Not(group_valid(grp1)), And(Not(grp2 is None), Not(group_valid(grp2 if grp2 is not None else []))))')],
    modifies=[], returns='real', ghost_locals={'newseq': 'str'},
    ensures=['result == kappa_seq(upper_seq(local("newseq")), length(local("newseq")))',
             # the same recoding fact as in the cases, in one clause (what a caller of this contract gets to know)
             '(recoded(local("newseq"), self.seq, self.len, %s) if (grp2 is None or (isinstance(grp2, list) and len(grp2) == 0)) '
             'else recoded(local("newseq"), self.seq, self.len, %s))' % (_ONE, _TWO)])
LOOPS[K + 'kappa_X'] = {
    0: dict(index='k', types={'newseq': 'str'}, invariant=['recoded(newseq, self.seq, k, %s)' % _TWO.replace('grp1', 'old(grp1)').replace('grp2', 'old(grp2)')]),
    1: dict(index='k', types={'newseq': 'str'}, invariant=['recoded(newseq, self.seq, k, %s)' % _ONE.replace('grp1', 'old(grp1)')]),
}

# ----------------------------------------------------------------------------- C03.d: permutant of the parent's residues with the candidate's pattern
def _parent(it, case):
    return mk_sequence(prefix='parentSeqObj')(it, case)


_PN = 'parentSeqObj.len'
_PS = 'parentSeqObj.seq'
CONTRACT[K + '__permutant_from_reduced_seq'] = dict(
    self=mk_sequence(alphabet='reduced'), params={'parentSeqObj': _parent},
    requires=['seq_inv(parentSeqObj)', 'self.len == %s' % _PN, 'forall(lambda j: is_aa(%s[j]), 0, %s)' % (_PS, _PN),
              'forall(lambda j: isin(self.seq[j], "+-0"), 0, self.len)',
              'n_sym(self.seq, "+", 0, self.len) == npos(%s, 0, %s)' % (_PS, _PN),
              'n_sym(self.seq, "-", 0, self.len) == nneg(%s, 0, %s)' % (_PS, _PN),
              'n_sym(self.seq, "0", 0, self.len) == nneut(%s, 0, %s)' % (_PS, _PN)],
    raises=[], modifies=[], returns='str',
    lemmas=['count_partition(%s, 0, %s)' % (_PS, _PN),
            'cnt_ext(mkseq(lambda j: isin(%s[j], "RK"), %s, "bool"), mkseq(lambda j: isin(%s[j], "KR+"), %s, "bool"), 0, %s)' % (_PS, _PN, _PS, _PN, _PN),
            'cnt_ext(mkseq(lambda j: isin(%s[j], "DE"), %s, "bool"), mkseq(lambda j: isin(%s[j], "DE-"), %s, "bool"), 0, %s)' % (_PS, _PN, _PS, _PN, _PN),
            'cnt_ext(mkseq(lambda j: Not(isin(%s[j], "DERK")), %s, "bool"), mkseq(lambda j: Not(isin(%s[j], "KR+DE-")), %s, "bool"), 0, %s)' % (_PS, _PN, _PS, _PN, _PN)],
    ensures=['length(result) == self.len', 'forall(lambda j: is_aa(result[j]), 0, self.len)',
             'forall(lambda j: charge(result[j]) == charge(self.seq[j]), 0, self.len)',
             # made of exactly the parent's residues: every letter (stated for the arbitrary constant LETTER) occurs as often as in the parent
             'same_letters(result, %s, %s)' % (_PS, _PN),
             # consequences (class-substitution theorems of C05): same delta as the candidate, same charge-class counts as the parent
             'delta_spec(result, length(result)) == delta_spec(self.seq, self.len)',
             'npos(result, 0, length(result)) == npos(%s, 0, %s)' % (_PS, _PN), 'nneg(result, 0, length(result)) == nneg(%s, 0, %s)' % (_PS, _PN)],
    post_lemmas={'same_letters(result, %s, %s)' % (_PS, _PN): [
        'filter_cnt(local("posRes"), %s, mkseq(lambda j: isin(%s[j], "RK"), %s, "bool"), LETTER, %s)' % (_PS, _PS, _PN, _PN),
        'filter_cnt(local("negRes"), %s, mkseq(lambda j: isin(%s[j], "DE"), %s, "bool"), LETTER, %s)' % (_PS, _PS, _PN, _PN),
        'filter_cnt(local("neutRes"), %s, mkseq(lambda j: Not(isin(%s[j], "DERK")), %s, "bool"), LETTER, %s)' % (_PS, _PS, _PN, _PN),
        'class_letter_partition(%s, LETTER, %s)' % (_PS, _PN)]},
    exit_lemmas=['C05_delta_substitution(result, self.seq, length(result))', 'npos_ext(result, self.seq, length(result), 0, length(result))',
                 'nneg_ext(result, self.seq, length(result), 0, length(result))',
                 'cnt_ext(mkseq(lambda j: isin(self.seq[j], "KR+"), self.len, "bool"), mkseq(lambda j: self.seq[j] == "+", self.len, "bool"), 0, self.len)',
                 'cnt_ext(mkseq(lambda j: isin(self.seq[j], "DE-"), self.len, "bool"), mkseq(lambda j: self.seq[j] == "-", self.len, "bool"), 0, self.len)'])
LOOPS[K + '__permutant_from_reduced_seq'] = {0: dict(index='k', types={'outSeq': 'str'}, invariant=[
    'length(outSeq) == k',
    'pos_counter == n_sym(self.seq, "+", 0, k)', 'neg_counter == n_sym(self.seq, "-", 0, k)', 'neut_counter == n_sym(self.seq, "0", 0, k)',
    'forall(lambda j: And(is_aa(outSeq[j]), charge(outSeq[j]) == charge(self.seq[j])), 0, k)',
    'cnt(lambda x: outSeq[x] == LETTER, 0, k) == cnt(lambda x: posRes[x] == LETTER, 0, pos_counter) + '
    'cnt(lambda x: negRes[x] == LETTER, 0, neg_counter) + cnt(lambda x: neutRes[x] == LETTER, 0, neut_counter)'],
    # the letters written so far are untouched by appending one more
    post_lemmas=['cnt_ext(mkseq(lambda x: outSeq[x] == LETTER, k, "bool"), mkseq(lambda x: pre("outSeq")[x] == LETTER, k, "bool"), 0, k)'],
    lemmas=['n_sym_strict_plus(self.seq, self.len)', 'n_sym_strict_minus(self.seq, self.len)', 'n_sym_strict_zero(self.seq, self.len)',
            'n_sym_nonneg_plus(self.seq, self.len)', 'n_sym_nonneg_minus(self.seq, self.len)', 'n_sym_nonneg_zero(self.seq, self.len)'])}


def _block_hints(u, N, blocks):
    """lemma instances that count each symbol of a block-structured candidate string: blocks = [(char expr, length expr)]"""
    hints = []
    offs = ['0']
    for _, ln in blocks:
        offs.append('(%s + %s)' % (offs[-1], ln))
    for t in ('"+"', '"-"', '"0"'):
        for i, (ch, ln) in enumerate(blocks):
            lo, hi = offs[i], offs[i + 1]
            if i < len(blocks) - 1:
                hints.append('nsym_split(%s, %s, %s, %s, %s)' % (u, t, lo, hi, N))
            hints.append(('nsym_all' if ch == t else 'nsym_none') + '(%s, %s, %s, %s)' % (u, t, lo, hi))
    return hints


def _permutant_call_hints(it, fr, lineno):
    loops = it.enclosing_loops(fr, lineno)
    o = loops[-1] if loops else None
    u, N = 'nseq.seq', 'self.len'
    env = fr.env
    cv = '"%s"' % env['chargeV'] if isinstance(env.get('chargeV'), str) else None
    P, Nn = 'npos(self.seq, 0, self.len)', 'nneg(self.seq, 0, self.len)'
    if o == 0:
        b = [('"0"', 'position'), (cv, 'ncharge'), ('"0"', '(nneuts - position)')]
    elif o == 1:
        b = [(cv, 'position'), ('"0"', 'nneuts'), (cv, '(ncharge - position)')]
    elif o == 2:
        b = [('"+"', 'position'), ('"-"', 'nNeg'), ('"+"', '(nPos - position)')]
    elif o == 3:
        b = [('"-"', 'position'), ('"+"', 'nPos'), ('"-"', '(nNeg - position)')]
    elif o == 5:
        b = [('"0"', 'startNeuts'), ('"+"', P), ('"0"', '(nneuts - startNeuts - endNeuts)'), ('"-"', Nn), ('"0"', 'endNeuts')]
    elif o == 7:
        b = [('"0"', 'startNeuts'), ('"+"', P), ('"0"', 'midNeuts'), ('"-"', Nn), ('"0"', '(nneuts - startNeuts - midNeuts)')]
    else:
        return []
    return _block_hints(u, N, b)


CONTRACT[K + 'deltaMax#permutant'] = dict(
    self=mk_sequence(), params={'returnSeqDeltaMax': ('const', True)},
    cases=[dict(self=mk_sequence(dmax='unset', sdm='none'), tag='fresh'),
           dict(self=mk_sequence(dmax='any', sdm='none'), requires=['self.dmax == dmax_seq(self.seq, self.len)'], tag='value cached, permutant absent'),
           dict(self=mk_sequence(dmax='any', sdm='str'), requires=['self.dmax != -1', 'self.dmax == dmax_seq(self.seq, self.len)', 'perm_ok(self, True)'], tag='both cached')],
    requires=['dmax_inv(self)', 'forall(lambda j: is_aa(self.seq[j]), 0, self.len)'],
    raises=[], modifies=['dmax', 'seqDeltaMax'], lemmas=_CNT,
    exit_lemmas=['when(And(npos(self.seq, 0, self.len) == 0, nneg(self.seq, 0, self.len) == 0), delta_uncharged(self.seq, self.len))'],
    call_lemmas={'Sequence.__permutant_from_reduced_seq': _permutant_call_hints},
    ensures=['result[0] == dmax_seq(self.seq, self.len)', 'self.dmax == result[0]', 'Not(is_none(result[1]))',
             'attained(the(result[1]), self.seq, self.len, result[0])'])
for _o in range(8):
    LOOPS[K + 'deltaMax'][_o]['invariant'].append('perm_ok(self, returnSeqDeltaMax)')
    LOOPS[K + 'deltaMax'][_o]['types']['self.seqDeltaMax'] = 'optional[str]'

# the first candidate of every search loop already lifts the running maximum to >= 0 (delta is never negative)
_FIRST = {0: 'position == 0', 1: 'position == 0', 2: 'position == 0', 3: 'position == 0', 4: 'startNeuts == 0',
          5: 'And(startNeuts == 0, endNeuts == 0)', 6: 'midNeuts == 0', 7: 'And(midNeuts == 0, startNeuts == 0)'}
for _o in range(8):
    LOOPS[K + 'deltaMax'][_o]['invariant'].append('Or(%s, self.dmax >= 0)' % _FIRST[_o])
    if _o not in (4, 6):
        LOOPS[K + 'deltaMax'][_o]['post_lemmas'] = ['delta_nonneg(nseq.seq, nseq.len)']

# callers that ask for the permutant (the Wang-Landau start state) get the permutant contract
def _permutant_result(it, env):
    return (it.fresh('deltaMax.value', 'real'), it.fresh_seq('deltaMax.permutant', 'str', 'char'))


CONTRACT[K + 'deltaMax#permutant']['returns'] = _permutant_result
CONTRACT[K + 'deltaMax']['dispatch'] = [('returnSeqDeltaMax == True', K + 'deltaMax#permutant')]
