"""Published per-residue tables, transcribed ONCE here (one-letter keys) independently of the code;
they are the oracle the tables extracted from /repo are compared against (C04.a, C09, C12, C20).

Sources:
  KD      Kyte & Doolittle, J. Mol. Biol. 157:105 (1982), Table 2 (hydropathy index)
  WW      Wimley & White, Nat. Struct. Biol. 3:842 (1996), whole-residue interfacial scale, sign
          reversed so that positive = hydrophobic (the convention the localCIDER docs state)
  PPII    Tomasso, Tarver, Devarajan & Whitten, PLoS Comput. Biol. 12:e1004686 (2016), Table 1:
          Hilser (Elam 2013), Creamer (Rucker 2003; W, Y = mean 0.58), Kallenbach (Shi 2005; G=0.5, P=1.0)
  MW      molecular weights of the free amino acids (Da), one decimal
  pKa     EMBOSS iep/pepstats side-chain pK values
  disorder-promoting set: Campen et al. TOP-IDP / Uversky: T A G R D H Q K S E P
  reduced alphabets: localCIDER documentation (reduce_alphabet docstring), Murphy et al. 2000-style
"""
from fractions import Fraction as F

AA20 = 'ACDEFGHIKLMNPQRSTVWY'


def _t(**kw):
    return {k: F(str(v)) for k, v in kw.items()}


KD = _t(I=4.5, V=4.2, L=3.8, F=2.8, C=2.5, M=1.9, A=1.8, G=-0.4, T=-0.7, S=-0.8, W=-0.9, Y=-1.3, P=-1.6,
        H=-3.2, E=-3.5, Q=-3.5, D=-3.5, N=-3.5, K=-3.9, R=-4.5)
KD_SHIFTED = {k: v + F('4.5') for k, v in KD.items()}           # 0 .. 9
KD_UVERSKY = {k: v / 9 for k, v in KD_SHIFTED.items()}         # 0 .. 1

WW = _t(I=0.31, V=-0.07, L=0.56, F=1.13, C=0.24, M=0.23, A=-0.17, G=-0.01, T=-0.14, S=-0.13, W=1.85, Y=0.94,
        P=-0.45, H=-0.96, E=-2.02, Q=-0.58, D=-1.23, N=-0.42, K=-0.99, R=-0.81)

PPII = {
    'hilser': _t(I=0.39, V=0.39, L=0.24, F=0.17, C=0.25, M=0.36, A=0.37, G=0.13, T=0.32, S=0.24, W=0.25, Y=0.25,
                 P=1.00, H=0.20, E=0.42, Q=0.53, D=0.30, N=0.27, K=0.56, R=0.38),
    'creamer': _t(I=0.50, V=0.49, L=0.58, F=0.58, C=0.55, M=0.55, A=0.61, G=0.58, T=0.53, S=0.58, W=0.58, Y=0.58,
                  P=0.67, H=0.55, E=0.61, Q=0.66, D=0.63, N=0.55, K=0.59, R=0.61),
    'kallenbach': _t(I=0.519, V=0.743, L=0.574, F=0.639, C=0.557, M=0.498, A=0.818, G=0.500, T=0.553, S=0.774,
                     W=0.764, Y=0.630, P=1.000, H=0.428, E=0.684, Q=0.654, D=0.552, N=0.667, K=0.581, R=0.638),
}

MW = _t(I=131.2, V=117.1, L=131.2, F=165.2, C=121.2, M=149.2, A=89.1, G=75.1, T=119.1, S=105.1, W=204.2, Y=181.2,
        P=115.1, H=155.2, E=147.1, Q=146.2, D=133.1, N=132.1, K=146.2, R=174.2)

PKA = _t(C=8.5, Y=10.1, H=6.5, E=4.1, D=3.9, K=10.0, R=12.5)
PKA_POS = 'KRH'
PKA_NEG = 'EDYC'

CHARGE = {a: (1 if a in 'KR' else (-1 if a in 'DE' else 0)) for a in AA20}
DISORDER_PROMOTING = 'TAGRDHQKSEP'
EXPANDING = 'DEKRP'

HTML_COLOURS = ['aqua', 'black', 'blue', 'fuchsia', 'gray', 'green', 'lime', 'maroon', 'navy', 'olive', 'orange',
                'purple', 'red', 'silver', 'teal', 'white', 'yellow']

# documented partitions of the 20 residues (reduce_alphabet docstring / localCIDER web documentation)
ALPHABETS = {
    2: ['LVIMCAGSTPFYW', 'EDNQKRH'],
    3: ['LVIMCAGSTP', 'FYW', 'EDNQKRH'],
    4: ['LVIMC', 'AGSTP', 'FYW', 'EDNQKRH'],
    5: ['LVIMC', 'ASGTP', 'FYW', 'EDNQ', 'KRH'],
    6: ['LVIM', 'ASGT', 'PHC', 'FYW', 'EDNQ', 'KR'],
    8: ['LVIMC', 'AG', 'ST', 'P', 'FYW', 'EDNQ', 'KR', 'H'],
    10: ['LVIM', 'C', 'A', 'G', 'ST', 'P', 'FYW', 'EDNQ', 'KR', 'H'],
    11: ['LVIM', 'C', 'A', 'G', 'ST', 'P', 'FYW', 'ED', 'NQ', 'KR', 'H'],
    12: ['LVIM', 'C', 'A', 'G', 'ST', 'P', 'FY', 'W', 'EQ', 'DN', 'KR', 'H'],
    15: ['LVIM', 'C', 'A', 'G', 'S', 'T', 'P', 'FY', 'W', 'E', 'Q', 'D', 'N', 'KR', 'H'],
    18: ['LM', 'VI', 'C', 'A', 'G', 'S', 'T', 'P', 'F', 'Y', 'W', 'E', 'D', 'N', 'Q', 'K', 'R', 'H'],
    20: list('LVIMCAGSTPFYWEDNQKRH'),
}
for _k, _g in ALPHABETS.items():
    assert len(_g) == _k and sorted(''.join(_g)) == sorted(AA20), _k

# texts of phasePlotAnnotation (localCIDER documentation, region 1..5)
REGION_TEXT = {1: 'Globule/Tadpole', 2: 'Boundary Region', 3: 'Coils,Hairpins and Chimeras', 4: 'Negatively Charged Swollen Coils',
               5: 'Positively Charged Swollen Coils'}

# documented layout of get_HTMLColorString
HTML_OPEN = '<p style="font-family:Courier;">'
HTML_CLOSE = '</p>'
HTML_SPAN = ('<span style="color:', '">', '</span>')
HTML_BREAK = '<br>'
