"""Contracts: SequenceFileParser helpers (C14.a, C14.b)."""
PARSER = 'localcider/backend/seqfileparser.py:SequenceFileParser.'
CONTRACT = {}
LOOPS = {}


def mk_parser(it, case):
    from pyvc.values import Obj
    mod = it.sb.load('localcider.backend.seqfileparser')
    return Obj(mod.SequenceFileParser, 'self')


CONTRACT[PARSER + '__validSeq'] = dict(
    self=mk_parser, params={'sequence': 'str'}, modifies=[], returns='str',
    raises=[('SequenceFileParserException', 'exists(lambda j: And(Not(keep_file(sequence[j])), Not(skip_file(sequence[j]))), 0, length(sequence))')],
    ensures=['kept_ok(result, sequence, length(sequence))'])
LOOPS[PARSER + '__validSeq'] = {0: dict(index='k', types={'parsed_seq': 'str'}, invariant=[
    'kept_ok(parsed_seq, sequence, k)', 'forall(lambda j: Or(keep_file(sequence[j]), skip_file(sequence[j])), 0, k)'],
    lemmas=['n_keep_strict(sequence, k)', 'n_keep_nonneg(sequence, 0, k)'])}

CONTRACT[PARSER + '__final_validation'] = dict(
    self=mk_parser, params={'seq': 'str'}, modifies=[], returns='str',
    requires=['forall(lambda x: keep_file(seq[x]), 0, length(seq))'],
    raises=[('SequenceFileParserException', 'Or(n_star(seq, 0, length(seq)) > 1, And(n_star(seq, 0, length(seq)) == 1, Not(seq[length(seq) - 1] == "*")))')],
    ensures=['implies(n_star(seq, 0, length(seq)) == 0, seq_eq(result, seq))',
             'implies(n_star(seq, 0, length(seq)) == 1, And(length(result) == length(seq) - 1, forall(lambda j: result[j] == seq[j], 0, length(seq) - 1)))'],
    lemmas=['n_star_nonneg(seq, 0, length(seq))'])
