"""Contracts: SequenceFileParser helpers (C14.a, C14.b)."""
PARSER = 'localcider/backend/seqfileparser.py:SequenceFileParser.'
CONTRACT = {}
LOOPS = {}


def mk_parser(it, case):
    from pyvc.values import Obj
    mod = it.sb.load('localcider.backend.seqfileparser')
    return Obj(mod.SequenceFileParser, 'self')


CONTRACT[PARSER + '__validSeq'] = dict(
    self=mk_parser, params={'sequence': 'str'}, modifies=[], returns='str',
    raises=[('SequenceFileParserException', 'exists(lambda j: And(Not(keep_file(sequence[j])), Not(skip_file(sequence[j]))), 0, length(sequence))')],
    ensures=['kept_ok(result, sequence, length(sequence))'])
LOOPS[PARSER + '__validSeq'] = {0: dict(index='k', types={'parsed_seq': 'str'}, invariant=[
    'kept_ok(parsed_seq, sequence, k)', 'forall(lambda j: Or(keep_file(sequence[j]), skip_file(sequence[j])), 0, k)'],
    lemmas=['n_keep_strict(sequence, k)', 'n_keep_nonneg(sequence, 0, k)'])}

CONTRACT[PARSER + '__final_validation'] = dict(
    self=mk_parser, params={'seq': 'str'}, modifies=[], returns='str',
    requires=['forall(lambda x: keep_file(seq[x]), 0, length(seq))'],
    raises=[('SequenceFileParserException', 'Or(n_star(seq, 0, length(seq)) > 1, And(n_star(seq, 0, length(seq)) == 1, Not(seq[length(seq) - 1] == "*")))')],
    ensures=['implies(n_star(seq, 0, length(seq)) == 0, seq_eq(result, seq))',
             'implies(n_star(seq, 0, length(seq)) == 1, And(length(result) == length(seq) - 1, forall(lambda j: result[j] == seq[j], 0, length(seq) - 1)))'],
    lemmas=['n_star_nonneg(seq, 0, length(seq))'])


# ----------------------------------------------------------------------------- C14.c: parseSeqFile for files of 0..3 lines
# The NUMBER of lines is fixed per case (0, 1, 2, 3); every line is a symbolic string of any length and content.
def file_of(m):
    def build(it, case):
        from pyvc.models import FileName
        return FileName([it.fresh_seq('line%d' % i, 'str', 'char') for i in range(m)])
    return build


def _lines(filename):
    return list(filename.lines)


def prepare(v):
    from pyvc import models
    v.interp.spec_env['strip_of'] = lambda x: models.strip_seq(v.interp, x)
    v.interp.spec_env['lines_of'] = _lines


def _S(lines):
    from pyvc.speclib import memo
    return lines


def is_header(S):
    from pyvc.speclib import And, length
    return And(length(S) > 0, S[0] == '>')


def is_seqline(S):
    from pyvc.speclib import And, Not, length
    return And(length(S) > 0, Not(S[0] == '>'))


def bad_line(S):
    from pyvc.speclib import And, Not, exists, length
    from .common import keep_file, skip_file
    return And(is_seqline(S), exists(lambda j: And(Not(keep_file(S[j])), Not(skip_file(S[j]))), 0, length(S)))


def two_headers(Ss):
    from pyvc.speclib import And, Or
    alts = [And(is_header(Ss[i]), is_header(Ss[k])) for i in range(len(Ss)) for k in range(i + 1, len(Ss))]
    return Or(*alts) if alts else False


def any_bad(Ss):
    from pyvc.speclib import Or
    alts = [bad_line(S) for S in Ss]
    return Or(*alts) if alts else False


def total_stars(Ss):
    from pyvc.speclib import ite, length
    from .common import n_star
    t = 0
    for S in Ss:
        t = t + ite(is_seqline(S), lambda S=S: n_star(S, 0, length(S)), lambda: 0)
    return t


def parsed_ok(R, Ss):
    """R is exactly the residue letters of the sequence lines, in order: only residue letters occur in R; the j-th character of
    sequence line i, if it is a residue letter, stands at (kept characters of earlier sequence lines) + (kept characters before j);
    the length is the number of kept characters, less one for the single final '*' if there is one"""
    from pyvc.speclib import And, Not, forall, implies, ite, length
    from .common import keep_file, n_keep
    off = 0
    parts = [forall(lambda x: And(keep_file(R[x]), Not(R[x] == '*')), 0, length(R))]
    for S in Ss:
        parts.append(implies(is_seqline(S), forall(
            lambda j, S=S, off=off: implies(And(keep_file(S[j]), Not(S[j] == '*')),
                                            And(off + n_keep(S, 0, j) < length(R), R[off + n_keep(S, 0, j)] == S[j])), 0, length(S))))
        off = off + ite(is_seqline(S), lambda S=S: n_keep(S, 0, length(S)), lambda: 0)
    parts.append(And(off - 1 <= length(R), length(R) <= off))
    return And(*parts)


def stripped(filename):
    from pyvc.models import strip_seq
    return [SPEC_ENV['strip_of'](l) for l in filename.lines]


SPEC_ENV = {}
SPEC = dict(is_header=is_header, is_seqline=is_seqline, bad_line=bad_line, two_headers=two_headers, any_bad=any_bad, total_stars=total_stars,
            parsed_ok=parsed_ok)
_prepare0 = prepare


def prepare(v):         # noqa: F811
    _prepare0(v)
    SPEC_ENV['strip_of'] = v.interp.spec_env['strip_of']
    v.interp.spec_env['stripped'] = stripped


CONTRACT[PARSER + 'parseSeqFile'] = dict(
    self=mk_parser, params={'filename': file_of(1), 'silent': ('const', False)},
    cases=[dict(params={'filename': file_of(m), 'silent': ('const', sl)}) for m in (0, 1, 2) for sl in ((False, True) if m == 1 else (False,))],
    modifies=[], returns='str',
    # a second header or a foreign character in a sequence line is always rejected; a '*' may be (exactly when: contract of __final_validation)
    raises=[('SequenceFileParserException', 'Or(two_headers(stripped(filename)), any_bad(stripped(filename)))')],
    may_raise=[('SequenceFileParserException', 'total_stars(stripped(filename)) >= 1')],
    ensures=['parsed_ok(result, stripped(filename))'],
    call_lemmas={'SequenceFileParser.__final_validation': lambda it, fr, lineno: _final_hints(len(fr.env['filename'].lines))})


def _final_hints(m):
    h = []
    for i in range(m):
        S = 'stripped(filename)[%d]' % i
        h += ['n_keep_strict(%s, length(%s))' % (S, S), 'n_keep_nonneg(%s, 0, length(%s))' % (S, S), 'n_keep_nonneg_all(%s, length(%s))' % (S, S), 'n_keep_onto(%s, length(%s))' % (S, S),
              'n_star_zero(%s, 0, length(%s))' % (S, S), 'n_star_nonneg(%s, 0, length(%s))' % (S, S)]
    h += ['n_star_nonneg(seq, 0, length(seq))', 'n_star_zero(seq, 0, length(seq))', 'n_star_zero(seq, 0, length(seq) - 1)',
          'when(total_stars(stripped(filename)) == 0, nsym_none(seq, "*", 0, length(seq)))']
    return h

# three-line files: same contract, thorough tier only (82 paths, minutes of solver time)
CONTRACT[PARSER + 'parseSeqFile#three'] = dict(CONTRACT[PARSER + 'parseSeqFile'], cases=[dict(params={'filename': file_of(3), 'silent': ('const', False)})])
