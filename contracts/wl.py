"""Contracts: Wang-Landau machine geometry and flat check (C18.a, part of C18.b)."""
from fractions import Fraction
WL = 'localcider/backend/wang_landau.py:WangLandauMachine.'
CONTRACT = {}
LOOPS = {}
SPEC = {}


def mk_machine(it, case):
    """a NORMAL-mode machine after construction: bin geometry fields symbolic under their invariant"""
    import z3
    from pyvc.values import Obj, Opaque
    mod = it.sb.load('localcider.backend.wang_landau')
    o = Obj(mod.WangLandauMachine, 'self')
    nb = it.fresh('nbins_actual', 'int')
    nt = it.fresh('nbins_target', 'int')
    lo = it.fresh('relevant_min', 'int')
    it.assume(z3.And(nb.e >= 1, nt.e >= 1, lo.e >= 0, lo.e + nt.e <= nb.e))
    o.fields.update(nbins_actual=nb, nbins_target=nt, relevant_min=lo, relevant_max=it.fresh('relevant_max', 'int'),
                    flatcrit=it.fresh('flatcrit', 'real'), convergence=it.fresh('convergence', 'real'), nflatchk=it.fresh('nflatchk', 'int'),
                    writeDir=Opaque('dir'), seq=Opaque('seq'), frozen=Opaque('frozen'), WL_type='NORMAL', binmin=it.fresh('binmin', 'real'),
                    binmax=it.fresh('binmax', 'real'), dotdotfreq=it.fresh('dotdotfreq', 'int'))
    it.assume(o.fields['relevant_max'].e == lo.e + nt.e - 1)
    it.assume(o.fields['flatcrit'].e > 0)
    return o


mk_machine.inv = 'And(self.nbins_actual >= 1, self.nbins_target >= 1, self.relevant_min >= 0, self.relevant_max == self.relevant_min + self.nbins_target - 1, self.relevant_max < self.nbins_actual)'

CONTRACT[WL + 'getBinSize'] = dict(self=mk_machine, raises=[], modifies=[], ensures=['result == 1 / toreal(self.nbins_actual)'])
CONTRACT[WL + 'getBinCenters'] = dict(
    self=mk_machine, raises=[], modifies=[], returns='nd[real]',
    ensures=['length(result) == self.nbins_actual',
             # midpoints of the equal partition of [0,1] into nbins_actual bins
             'forall(lambda i: result[i] == (toreal(i) + Fraction(1, 2)) / toreal(self.nbins_actual), 0, self.nbins_actual)'])
CONTRACT[WL + 'indexInsideRelevantRegion'] = dict(
    self=mk_machine, params={'idx': 'int'}, raises=[], modifies=[],
    ensures=['result == And(self.relevant_min <= idx, idx <= self.relevant_max)'])


def all_flat(Hl, n, crit):
    from pyvc.speclib import forall, isum, toreal
    mean = toreal(isum(lambda j: Hl[j], 0, n)) / toreal(n)
    return forall(lambda i: toreal(Hl[i]) / mean >= crit, 0, n)


def flat_bits(Hl, n, crit):
    from pyvc.speclib import mkseq, isum, toreal
    mean = toreal(isum(lambda j: Hl[j], 0, n)) / toreal(n)
    return mkseq(lambda i: toreal(Hl[i]) / mean >= crit, n, 'bool')


SPEC.update(dict(all_flat=all_flat, flat_bits=flat_bits))

CONTRACT[WL + '__run_flatcheck'] = dict(
    self=mk_machine,
    params={'H': 'list[int]', 'Hlocal': 'list[int]', 'niter': 'int', 'f': 'real', 'hlog': 'opaque', 'glog': 'opaque', 'g': 'list[real]'},
    requires=['length(H) == self.nbins_actual', 'length(Hlocal) == self.nbins_target', 'length(g) == self.nbins_actual', 'f > 0',
              'forall(lambda i: Hlocal[i] >= 0, 0, length(Hlocal))', 'isum(lambda j: Hlocal[j], 0, length(Hlocal)) > 0'],
    raises=[], modifies=[],
    ensures=['result[3] == 0',
             # flat exactly when every bin of the range holds at least the criterion fraction of the mean count
             'implies(all_flat(Hlocal, self.nbins_target, self.flatcrit), And(result[1] == sqrt(f), result[2] == niter + 1, '
             'length(result[0]) == self.nbins_actual, forall(lambda i: result[0][i] == 0, 0, self.nbins_actual)))',
             'implies(Not(all_flat(Hlocal, self.nbins_target, self.flatcrit)), And(result[1] == f, result[2] == niter, seq_eq(result[0], H)))'],
    lemmas=['cnt_full(flat_bits(Hlocal, self.nbins_target, self.flatcrit), self.nbins_target)'])

# formatting / logging helpers: trusted (assumed) contracts - text formatting is outside the executor's model
for _f in ('fprintGVector', 'fprintHVector', 'fprintVertVector'):
    CONTRACT[WL + _f] = dict(self=mk_machine, params={'vector': 'opaque'}, raises=[], modifies=[], returns='opaque', ensures=[], trusted=True, no_inv=True)
CONTRACT[WL + 'writeLog'] = dict(self=mk_machine, params={'logfile': 'opaque', 'output': 'opaque'}, raises=[], modifies=[], ensures=[], trusted=True, no_inv=True)
CONTRACT[WL + 'mklog'] = dict(self=mk_machine, params={'logfile': 'opaque', 'initial': 'opaque'}, raises=[], modifies=[], returns='opaque', ensures=[], trusted=True, no_inv=True)


# ----------------------------------------------------------------------------- C18.c: the run loop of run_normal_WL
def mk_machine_run(it, case):
    """a NORMAL-mode machine whose sequence is a Sequence object under its invariant and whose frozen set is any set of positions"""
    from .common import mk_sequence
    o = mk_machine(it, case)
    o.fields['seq'] = mk_sequence(prefix='self.seq')(it, case)
    o.fields['frozen'] = it.fresh_typed('frozen', 'set[int]')
    return o


mk_machine_run.inv = mk_machine.inv

CONTRACT[WL + 'sanity_check'] = dict(self=mk_machine, raises=[], modifies=[], ensures=['result is None'])


def _exp(x):
    from pyvc import ops
    return ops.mk(ops._uf(ops.EXP, ops.z3real(x)), 'real')


def _ln(x):
    from pyvc import ops
    return ops.mk(ops._uf(ops.LN, ops.z3real(x)), 'real')


SPEC.update(dict(exp=_exp, ln=_ln))


def prepare(v):
    from pyvc import models
    # the bin of a kappa value exactly as the code computes it: numpy.argmin(abs(centres - kappa))
    v.interp.spec_env['bin_of'] = lambda cts, k: models.m_np_argmin(v.interp, None, models.m_abs(v.interp, None, cts - k))


_B = 'bin_of(bincts, knew)'                                       # bin of the proposal of this iteration
_INR = 'And(self.relevant_min <= %s, %s <= self.relevant_max)'     # inside the requested range
_INB = _INR % (_B, _B)
_MOVED = 'draw(1) < acceptProb'                                   # draw(0) selects the move, draw(1) is the acceptance draw
_CHK = '(pre("nstep") + 1) % self.nflatchk == 0'                  # a scheduled flat check closes this iteration
_HUPD = '(pre("H")[%%s] + ite(And(%s, %%s == idx_old), 1, 0))' % _INB
_ALLH = lambda body: 'forall(lambda i: %s, 0, self.nbins_actual)' % body

CONTRACT[WL + 'run_normal_WL'] = dict(
    self=mk_machine_run, feas_cone=True,
    requires=['seq_inv(self.seq)', 'dmax_inv(self.seq)', 'forall(lambda j: is_aa(self.seq.seq[j]), 0, self.seq.len)', 'self.seq.len >= 4',
              'self.nflatchk >= 1', 'self.dotdotfreq >= 1'],
    raises=[], may_raise=[('SequenceException', 'True'), ('ValueError', 'True')],
    modifies=['seq.dmax', 'seq.seqDeltaMax'],       # the start state is the input's delta-max permutant: the search fills the input's caches
    call_lemmas={'Sequence.kappa': lambda it, fr, lineno: _rebuilt_hints(it, fr)},
    # the run stops only when f has reached the convergence threshold; the returned array pairs the bin centres with g
    ensures=['local("f") <= self.convergence',
             'forall(lambda i: local("bincts")[i] == (toreal(i) + Fraction(1, 2)) / toreal(self.nbins_actual), 0, self.nbins_actual)'])
def _rebuilt_hints(it, fr):
    """the accepted proposal is re-built with Sequence(nseq.seq, nseq.dmax, nseq.chargePattern): the constructor upper-cases its argument, so
    that kappa and delta-max of the new object are those of the proposal is the C05 substitution theorem (equal charge classes position by position)"""
    from pyvc.values import Obj
    if not (isinstance(fr.env.get('nseq'), Obj) and isinstance(fr.env.get('oseq'), Obj)):
        return []
    g = 'seq_eq(oseq.seq, upper_seq(nseq.seq))'
    return ['when(%s, C05_kappa_substitution(oseq.seq, nseq.seq, nseq.len))' % g, 'when(%s, C05_dmax_substitution(oseq.seq, nseq.seq, nseq.len))' % g]


LOOPS[WL + 'run_normal_WL'] = {0: dict(
    types={'g': 'list[real]', 'H': 'list[int]', 'f': 'real', 'oseq': 'seqobj', 'idx_old': 'int', 'kold': 'real', 'nstep': 'int', 'niter': 'int',
           'flatcount': 'int', 'seqcount': 'int', 'reject': 'int', 'idx_new': 'int', 'knew': 'real', 'acceptProb': 'real', 'Hlocal': 'list[int]',
           'oseq.seqDeltaMax': 'opaque', 'oseq.dmax': 'real'},
    invariant=['length(g) == self.nbins_actual', 'length(H) == self.nbins_actual', 'f > 0', 'And(0 <= idx_old, idx_old < self.nbins_actual)',
               'seq_inv(oseq)', 'dmax_inv(oseq)', 'oseq.len == self.seq.len', 'And(0 <= nstep, nstep < self.nflatchk)',
               'forall(lambda i: H[i] >= 0, 0, self.nbins_actual)',
               # the state the chain sits in always has the kappa and the bin the bookkeeping says
               'kold == kappa_seq(oseq.seq, oseq.len)', 'idx_old == bin_of(bincts, kold)'],
    transition=[
        # acceptance probability of the WL rule; 0 outside the requested range
        'acceptProb == ite(%s, lambda: minv(1, exp(pre("g")[pre("idx_old")] - pre("g")[%s])), lambda: 0)' % (_INB, _B),
        # the chain moves exactly when the acceptance draw falls below it, and then sits in the proposal's bin, which is inside the range
        'implies(%s, And(idx_old == %s, kold == knew, %s))' % (_MOVED, _B, _INR % ('idx_old', 'idx_old')),
        'implies(Not(%s), And(idx_old == pre("idx_old"), kold == pre("kold"), oseq is pre("oseq")))' % _MOVED,
        # counted step (proposal inside the range): ln f is added to g of the occupied bin, nothing else changes; otherwise g is untouched
        'ite(%s, lambda: And(g[idx_old] == pre("g")[idx_old] + ln(pre("f")), %s), lambda: %s)'
        % (_INB, _ALLH('implies(i != idx_old, g[i] == pre("g")[i])'), _ALLH('g[i] == pre("g")[i]')),
        # between scheduled checks: 1 is added to the histogram of the occupied bin on a counted step; f and the iteration stay
        'implies(Not(%s), And(%s, f == pre("f"), niter == pre("niter"), nstep == pre("nstep") + 1))' % (_CHK, _ALLH('H[i] == ' + _HUPD % ('i', 'i'))),
        # at a scheduled check the range of the updated histogram is examined ...
        'implies(%s, And(nstep == 0, length(Hlocal) == self.nbins_target, forall(lambda i: Hlocal[i] == %s, 0, self.nbins_target)))'
        % (_CHK, _HUPD % ('self.relevant_min + i', 'self.relevant_min + i')),
        # ... f becomes its square root and the histogram is reset exactly when every bin of the range holds the criterion fraction of the mean
        'implies(And(%s, isum(lambda j: Hlocal[j], 0, self.nbins_target) > 0), ite(all_flat(Hlocal, self.nbins_target, self.flatcrit), '
        'lambda: And(f == sqrt(pre("f")), niter == pre("niter") + 1, %s), lambda: And(f == pre("f"), niter == pre("niter"), %s)))'
        % (_CHK, _ALLH('H[i] == 0'), _ALLH('H[i] == ' + _HUPD % ('i', 'i'))),
    ],
)}

def _flatcheck_result(it, env):
    return (it.fresh_typed('flatcheck.H', 'list[int]'), it.fresh('flatcheck.f', 'real'), it.fresh('flatcheck.niter', 'int'), it.fresh('flatcheck.nstep', 'int'))


CONTRACT[WL + '__run_flatcheck']['returns'] = _flatcheck_result


# the two loops that write DOS.txt / DOS_local.txt after the run: no state the contract talks about changes (text output is opaque)
LOOPS[WL + 'run_normal_WL'][1] = dict(index='i', invariant=['length(g) == self.nbins_actual'])
LOOPS[WL + 'run_normal_WL'][2] = dict(index='i', invariant=['length(g) == self.nbins_actual'])

# the all-zero local histogram: numpy divides by a zero mean, every ratio is NaN and no comparison with the criterion holds -> "not flat".
# NaN semantics are outside the model, so this case of the flat check is an ASSUMED contract.
CONTRACT[WL + '__run_flatcheck#allzero'] = dict(
    self=mk_machine, params=CONTRACT[WL + '__run_flatcheck']['params'],
    requires=['length(H) == self.nbins_actual', 'forall(lambda i: Hlocal[i] >= 0, 0, length(Hlocal))', 'isum(lambda j: Hlocal[j], 0, length(Hlocal)) <= 0'], raises=[], modifies=[], trusted=True, returns=_flatcheck_result,
    ensures=['result[3] == 0', 'result[1] == f', 'result[2] == niter', 'seq_eq(result[0], H)'])
CONTRACT[WL + '__run_flatcheck']['dispatch'] = [('isum(lambda j: Hlocal[j], 0, length(Hlocal)) <= 0', WL + '__run_flatcheck#allzero')]
