"""Contracts: Wang-Landau machine geometry and flat check (C18.a, part of C18.b)."""
from fractions import Fraction
WL = 'localcider/backend/wang_landau.py:WangLandauMachine.'
CONTRACT = {}
LOOPS = {}
SPEC = {}


def mk_machine(it, case):
    """a NORMAL-mode machine after construction: bin geometry fields symbolic under their invariant"""
    import z3
    from pyvc.values import Obj, Opaque
    mod = it.sb.load('localcider.backend.wang_landau')
    o = Obj(mod.WangLandauMachine, 'self')
    nb = it.fresh('nbins_actual', 'int')
    nt = it.fresh('nbins_target', 'int')
    lo = it.fresh('relevant_min', 'int')
    it.assume(z3.And(nb.e >= 1, nt.e >= 1, lo.e >= 0, lo.e + nt.e <= nb.e))
    o.fields.update(nbins_actual=nb, nbins_target=nt, relevant_min=lo, relevant_max=it.fresh('relevant_max', 'int'),
                    flatcrit=it.fresh('flatcrit', 'real'), convergence=it.fresh('convergence', 'real'), nflatchk=it.fresh('nflatchk', 'int'),
                    writeDir=Opaque('dir'), seq=Opaque('seq'), frozen=Opaque('frozen'), WL_type='NORMAL', binmin=it.fresh('binmin', 'real'),
                    binmax=it.fresh('binmax', 'real'), dotdotfreq=it.fresh('dotdotfreq', 'int'))
    it.assume(o.fields['relevant_max'].e == lo.e + nt.e - 1)
    it.assume(o.fields['flatcrit'].e > 0)
    return o


mk_machine.inv = 'And(self.nbins_actual >= 1, self.nbins_target >= 1, self.relevant_min >= 0, self.relevant_max == self.relevant_min + self.nbins_target - 1, self.relevant_max < self.nbins_actual)'

CONTRACT[WL + 'getBinSize'] = dict(self=mk_machine, raises=[], modifies=[], ensures=['result == 1 / toreal(self.nbins_actual)'])
CONTRACT[WL + 'getBinCenters'] = dict(
    self=mk_machine, raises=[], modifies=[], returns='nd[real]',
    ensures=['length(result) == self.nbins_actual',
             # midpoints of the equal partition of [0,1] into nbins_actual bins
             'forall(lambda i: result[i] == (toreal(i) + Fraction(1, 2)) / toreal(self.nbins_actual), 0, self.nbins_actual)'])
CONTRACT[WL + 'indexInsideRelevantRegion'] = dict(
    self=mk_machine, params={'idx': 'int'}, raises=[], modifies=[],
    ensures=['result == And(self.relevant_min <= idx, idx <= self.relevant_max)'])


def all_flat(Hl, n, crit):
    from pyvc.speclib import forall, isum, toreal
    mean = toreal(isum(lambda j: Hl[j], 0, n)) / toreal(n)
    return forall(lambda i: toreal(Hl[i]) / mean >= crit, 0, n)


def flat_bits(Hl, n, crit):
    from pyvc.speclib import mkseq, isum, toreal
    mean = toreal(isum(lambda j: Hl[j], 0, n)) / toreal(n)
    return mkseq(lambda i: toreal(Hl[i]) / mean >= crit, n, 'bool')


SPEC.update(dict(all_flat=all_flat, flat_bits=flat_bits))

CONTRACT[WL + '__run_flatcheck'] = dict(
    self=mk_machine,
    params={'H': 'list[int]', 'Hlocal': 'list[int]', 'niter': 'int', 'f': 'real', 'hlog': 'opaque', 'glog': 'opaque', 'g': 'list[real]'},
    requires=['length(H) == self.nbins_actual', 'length(Hlocal) == self.nbins_target', 'length(g) == self.nbins_actual', 'f > 0',
              'forall(lambda i: Hlocal[i] >= 0, 0, length(Hlocal))', 'isum(lambda j: Hlocal[j], 0, length(Hlocal)) > 0'],
    raises=[], modifies=[],
    ensures=['result[3] == 0',
             # flat exactly when every bin of the range holds at least the criterion fraction of the mean count
             'implies(all_flat(Hlocal, self.nbins_target, self.flatcrit), And(result[1] == sqrt(f), result[2] == niter + 1, '
             'length(result[0]) == self.nbins_actual, forall(lambda i: result[0][i] == 0, 0, self.nbins_actual)))',
             'implies(Not(all_flat(Hlocal, self.nbins_target, self.flatcrit)), And(result[1] == f, result[2] == niter, seq_eq(result[0], H)))'],
    lemmas=['cnt_full(flat_bits(Hlocal, self.nbins_target, self.flatcrit), self.nbins_target)'])

# formatting / logging helpers: trusted (assumed) contracts - text formatting is outside the executor's model
for _f in ('fprintGVector', 'fprintHVector', 'fprintVertVector'):
    CONTRACT[WL + _f] = dict(self=mk_machine, params={'vector': 'opaque'}, raises=[], modifies=[], returns='opaque', ensures=[], trusted=True, no_inv=True)
CONTRACT[WL + 'writeLog'] = dict(self=mk_machine, params={'logfile': 'opaque', 'output': 'opaque'}, raises=[], modifies=[], ensures=[], trusted=True, no_inv=True)
CONTRACT[WL + 'mklog'] = dict(self=mk_machine, params={'logfile': 'opaque', 'initial': 'opaque'}, raises=[], modifies=[], returns='opaque', ensures=[], trusted=True, no_inv=True)
