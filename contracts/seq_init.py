"""Contracts: validateSequence, Sequence.__init__, SequenceParameters.__init__ (C13)."""
from .common import SEQ, mk_sequence

K = SEQ + ':Sequence.'
CONTRACT = {}
LOOPS = {}


def mk_blank(it, case):
    """receiver of a constructor: an object without fields"""
    from pyvc.values import Obj
    mod = it.sb.load('localcider.backend.sequence')
    return Obj(mod.Sequence, 'self')


CONTRACT[K + 'validateSequence'] = dict(
    self=mk_blank, params={'seq': 'str'}, modifies=[],
    raises=[('SequenceException', 'exists(lambda j: And(Not(is_aa(seq[j])), Not(is_space(seq[j]))), 0, length(seq))'),
            ('ZeroDivisionError', 'And(forall(lambda j: Or(is_aa(seq[j]), is_space(seq[j])), 0, length(seq)), n_aa(seq, 0, length(seq)) == 0)')],
    returns='str',
    ensures=['filtered_ok(result, seq, length(seq))', 'length(result) >= 1'],
    exit_lemmas=['n_aa_nonneg(seq, 0, length(seq))'])
LOOPS[K + 'validateSequence'] = {0: dict(index='k', types={'processed': 'str'}, invariant=[
    'filtered_ok(processed, seq, k)',
    'forall(lambda j: Or(is_aa(seq[j]), is_space(seq[j])), 0, k)',
    'pos == k'],
    lemmas=['n_aa_strict(seq, k)', 'n_aa_nonneg(seq, 0, k)'])}

CONTRACT[K + 'validateSequence']['ensures'].append('forall(lambda x: is_aa(result[x]), 0, length(result))')
LOOPS[K + 'validateSequence'][0]['invariant'].append('forall(lambda x: is_aa(processed[x]), 0, length(processed))')

_CTOR_FIELDS = ['self.seq == upper_seq(seq)', 'self.len == length(seq)', 'self.chargePattern == pattern_of(upper_seq(seq))',
                'self.dmax == dmax', 'self.seqDeltaMax is None', 'self.phosphosites == []',
                'self.aminoAcidColorMap == DEFAULT_PALETTE']

# the constructor as the library itself calls it: no validation, residues (or + - 0) only, optional supplied pattern/dmax
CONTRACT[K + '__init__'] = dict(
    self=mk_blank, params={'seq': 'str', 'dmax': 'real', 'chargePattern': 'nd[int]', 'validateSeq': ('const', False)},
    cases=[dict(params={'chargePattern': (lambda it, case: [])}),
           dict(params={'chargePattern': 'nd[int]'}, requires=['length(chargePattern) >= 1'])],
    requires=['validateSeq == False', 'forall(lambda j: is_res(upper_char(seq[j])), 0, length(seq))',
              'Or(length(chargePattern) == 0, And(length(chargePattern) == length(seq), forall(lambda j: chargePattern[j] == charge(upper_char(seq[j])), 0, length(seq))))'],
    raises=[], no_inv=True,
    modifies=['seq', 'len', 'chargePattern', 'dmax', 'seqDeltaMax', 'phosphosites', 'aminoAcidColorMap', 'ComplexityObject'],
    ensures=['seq_eq(self.seq, upper_seq(seq))', 'self.len == length(seq)', 'length(self.chargePattern) == length(seq)',
             'forall(lambda j: self.chargePattern[j] == charge(self.seq[j]), 0, length(seq))',
             'self.dmax == dmax', 'self.seqDeltaMax is None', 'length(self.phosphosites) == 0',
             'palette_is_default(self.aminoAcidColorMap)'],
    ctor_fields=dict(seq='upper_seq(seq)', len='length(seq)', chargePattern='pattern_of(upper_seq(seq))', dmax='dmax',
                     seqDeltaMax='None', phosphosites='[]', aminoAcidColorMap='dict(DEFAULT_PALETTE)'))
LOOPS[K + '__init__'] = {0: dict(index='i', types={'chargePattern': 'nd[int]'}, invariant=[
    'length(chargePattern) == i', 'forall(lambda j: chargePattern[j] == charge(self.seq[j]), 0, i)'])}

# the constructor as SequenceParameters calls it: validation on, arbitrary text
CONTRACT[K + '__init__#validate'] = dict(
    self=mk_blank, params={'seq': 'str', 'dmax': ('const', -1), 'chargePattern': (lambda it, case: []), 'validateSeq': ('const', True)},
    no_inv=True,
    raises=[('SequenceException', 'exists(lambda j: And(Not(is_aa(upper_char(seq[j]))), Not(is_space(upper_char(seq[j])))), 0, length(seq))'),
            ('ZeroDivisionError', 'And(forall(lambda j: Or(is_aa(upper_char(seq[j])), is_space(upper_char(seq[j]))), 0, length(seq)), '
                                  'n_aa(upper_seq(seq), 0, length(seq)) == 0)')],
    modifies=['seq', 'len', 'chargePattern', 'dmax', 'seqDeltaMax', 'phosphosites', 'aminoAcidColorMap', 'ComplexityObject'],
    modifies_on_raise=[],
    ensures=['filtered_ok(self.seq, upper_seq(seq), length(seq))', 'self.len == length(self.seq)', 'self.len >= 1',
             'forall(lambda x: is_aa(self.seq[x]), 0, self.len)', 'length(self.chargePattern) == self.len',
             'forall(lambda j: self.chargePattern[j] == charge(self.seq[j]), 0, self.len)',
             'self.dmax == -1', 'self.seqDeltaMax is None', 'length(self.phosphosites) == 0',
             'palette_is_default(self.aminoAcidColorMap)'])
LOOPS[K + '__init__#validate'] = LOOPS[K + '__init__']

CONTRACT[K + '__init__']['dispatch'] = [('validateSeq == True', K + '__init__#validate')]
CONTRACT[K + '__init__#validate'].update(
    ctor_fresh={'seq': 'str'},
    ctor_fields=dict(len='length(self.seq)', chargePattern='pattern_of(self.seq)', dmax='-1', seqDeltaMax='None', phosphosites='[]',
                     aminoAcidColorMap='dict(DEFAULT_PALETTE)'),
    ctor_assume_ensures=True)

SPK = 'localcider/sequenceParameters.py:SequenceParameters.'


def _mksp():
    inner = mk_sequence(prefix='self.SeqObj')

    def build(it, case):
        from pyvc.values import Obj
        mod = it.sb.load('localcider.sequenceParameters')
        o = Obj(mod.SequenceParameters, 'self')
        o.fields['SeqObj'] = inner(it, case)
        return o
    build.inv = 'seq_inv(self.SeqObj)'
    return build


def mk_blank_sp(it, case):
    from pyvc.values import Obj
    mod = it.sb.load('localcider.sequenceParameters')
    return Obj(mod.SequenceParameters, 'self')


# C13.b/c: construction from a string (sequenceFile and SeqObj left at their defaults)
CONTRACT[SPK + '__init__'] = dict(
    self=mk_blank_sp, params={'sequence': 'str', 'sequenceFile': ('const', ''), 'SeqObj': ('const', None)}, no_inv=True,
    raises=[('SequenceException', 'Or(length(sequence) == 0, exists(lambda j: And(Not(is_aa(upper_char(sequence[j]))), Not(is_space(upper_char(sequence[j])))), 0, length(sequence)))'),
            ('ZeroDivisionError', 'And(length(sequence) >= 1, forall(lambda j: Or(is_aa(upper_char(sequence[j])), is_space(upper_char(sequence[j]))), 0, length(sequence)), '
                                  'n_aa(upper_seq(sequence), 0, length(sequence)) == 0)')],
    modifies=['SeqObj'], modifies_on_raise=[],
    ensures=['filtered_ok(self.SeqObj.seq, upper_seq(sequence), length(sequence))', 'seq_inv(self.SeqObj)',
             'forall(lambda x: is_aa(self.SeqObj.seq[x]), 0, self.SeqObj.len)',
             'self.SeqObj.dmax == -1', 'self.SeqObj.seqDeltaMax is None', 'length(self.SeqObj.phosphosites) == 0'])
CONTRACT[SPK + 'get_sequence'] = dict(self=_mksp(), ensures=['seq_eq(result, self.SeqObj.seq)'], modifies=[])
CONTRACT[SPK + 'get_length'] = dict(self=_mksp(), ensures=['result == length(self.SeqObj.seq)'], modifies=[])
CONTRACT[SPK + '__len__'] = dict(self=_mksp(), ensures=['result == length(self.SeqObj.seq)'], modifies=[])

# non-strings are rejected before anything is stored
CONTRACT[K + '__init__#nonstr'] = dict(
    self=mk_blank, params={'seq': ('const', None), 'dmax': ('const', -1), 'chargePattern': (lambda it, case: []), 'validateSeq': ('const', True)},
    cases=[dict(params={'seq': ('const', None)}), dict(params={'seq': ('const', 5)}), dict(params={'seq': (lambda it, case: ['A', 'C'])}),
           dict(params={'seq': ('const', b'ACDE')}), dict(params={'seq': 'int'}), dict(params={'seq': 'list[char]'})],
    no_inv=True, raises=[('SequenceException', 'True')], modifies=[], modifies_on_raise=[], ensures=[])
